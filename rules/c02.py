"""C02 Only the owner or designated authority moves funds or changes privileged state.

 A1 (K2)  in every Checked*::execute every state-writing call is dominated by the success edge
          of the type's own mutable-check call.
 A2 (K2+K5) the mutable check really compares the signer with the matching authority read from
          *current* state: equality of `self.tx_signer` with the result of the right getter
          (applied to the right action field) lies on every success path of the check.
 A3 (K5)  every debit (`decrease_balance`) takes its address from the signer, or from the
          bridge address whose withdrawer the A2 guard compared with the signer.
 A4 (K1)  privileged putters are only called from the matching execute, genesis, upgrades.
 A5       signature discipline for Transaction (shared with C17-W2).
"""
import re

from facts import short_name, TRY_BRANCH, ADAPTERS
from kinds import (comparisons, find_cmp, result_blocks, k1_callers, on_all_success_paths,
                   const_param_false_edges, bool_payload_edges, error_cut)

CRATES = ["astria_sequencer.lib", "astria_core.lib", "astria_core_crypto.lib"]
CA = "astria_sequencer::checked_actions::"
SIGNER = r"^(as_bytes\()?self\.tx_signer\)?$"

# type -> (guard fn suffix, [authority specs])
#  ("eq", getter regex, required substring of the getter call root (its argument) or None)
#  ("bool", callee regex, arg regex, wanted truth value)
#  ("delegate", [callee regexes])
TYPES = {
    "sudo_address_change::CheckedSudoAddressChange":
        ("run_mutable_checks", [("eq", r"^get_sudo_address\(", None)]),
    "fee_change::CheckedFeeChange":
        ("run_mutable_checks", [("eq", r"^get_sudo_address\(", None)]),
    "fee_asset_change::CheckedFeeAssetChange":
        ("run_mutable_checks", [("eq", r"^get_sudo_address\(", None)]),
    "ibc_sudo_change::CheckedIbcSudoChange":
        ("run_mutable_checks", [("eq", r"^get_sudo_address\(", None)]),
    "currency_pairs_change::CheckedCurrencyPairsChange":
        ("run_mutable_checks", [("eq", r"^get_sudo_address\(", None)]),
    "validator_update::CheckedValidatorUpdate":
        ("do_run_mutable_checks", [("eq", r"^get_sudo_address\(", None)]),
    "markets_change::CheckedMarketsChange":
        ("do_run_mutable_checks", [("eq", r"^get_sudo_address\(", None)]),
    "recover_ibc_client::CheckedRecoverIbcClient":
        ("do_run_mutable_checks", [("eq", r"^get_sudo_address\(", None)]),
    "ibc_relayer_change::CheckedIbcRelayerChange":
        ("run_mutable_checks", [("eq", r"^get_ibc_sudo_address\(", None)]),
    "ibc_relay::CheckedIbcRelay":
        ("run_mutable_checks", [("bool", r"ibc::state_ext::StateReadExt::is_ibc_relayer$",
                                 r"self\.tx_signer", True)]),
    "bridge_sudo_change::CheckedBridgeSudoChange":
        ("run_mutable_checks", [("eq", r"^get_bridge_account_sudo_address\(",
                                 "self.action.bridge_address")]),
    "bridge::bridge_unlock::CheckedBridgeUnlockImpl::<PURE_UNLOCK>":
        ("run_mutable_checks", [("eq", r"^get_bridge_account_withdrawer_address\(",
                                 "self.action.bridge_address")]),
    "bridge::bridge_transfer::CheckedBridgeTransfer":
        ("run_mutable_checks", [("delegate", [r"CheckedBridgeUnlockImpl::<.*>::run_mutable_checks$",
                                              r"CheckedBridgeLockImpl::<.*>::run_mutable_checks$"])]),
    "ics20_withdrawal::CheckedIcs20Withdrawal":
        ("run_mutable_checks", [("ics20",)]),
    "transfer::CheckedTransfer":
        ("run_mutable_checks", [("bool", r"core::option::Option::<T>::is_none$",
                                 r"get_bridge_account_rollup_id\(state,self\.tx_signer\)", True)]),
    "bridge::bridge_lock::CheckedBridgeLockImpl::<PURE_LOCK>":
        ("run_mutable_checks", [("bool", r"bridge::state_ext::StateReadExt::is_a_bridge_account$",
                                 r"self\.tx_signer", False)]),
    "init_bridge_account::CheckedInitBridgeAccount":
        ("run_mutable_checks", [("bool", r"core::option::Option::<T>::is_none$",
                                 r"get_bridge_account_rollup_id\(state,self\.tx_signer\)", True)]),
}

# execute owner regex -> guard type key
EXEC_GUARD = {t: g for t, (g, _) in TYPES.items()}

WRITER_RX = re.compile(
    r"::StateWriteExt::|cnidarium::write::StateWrite::|::ConsensusStateWriteExt::|"
    r"SendPacketWrite::|check_and_execute$|::record_deposit$|::record_withdrawal_event$|"
    r"::execute_currency_pairs_(removal|addition)$|penumbra_sdk_ibc::component::client::StateWriteExt::")

# who may be debited: owner -> regex on the address operand root
DEBIT = {
    CA + "transfer::CheckedTransfer::execute": r"^self\.tx_signer$",
    CA + "bridge::bridge_lock::CheckedBridgeLockImpl::<true>::execute": r"^self\.tx_signer$",
    CA + "bridge::bridge_unlock::CheckedBridgeUnlockImpl::<true>::execute":
        r"^self\.action\.bridge_address$",
    CA + "bridge::bridge_transfer::CheckedBridgeTransfer::execute":
        r"^action\(self\.checked_bridge_unlock\)\.bridge_address$",
    CA + "ics20_withdrawal::CheckedIcs20Withdrawal::execute": r"^self\.withdrawal_address$",
    CA + "checked_action::pay_fee": r"^tx_signer$",
}


def trunc(s, n=120):
    return s if len(s) <= n else s[:n] + "…"


def guard_owner(t):
    return CA + t + "::" + TYPES[t][0]


def run(prog, rep):
    rep.explanation = (
        "Must-dominate and operand-provenance rules over the mir_built CFGs of all 17 checked "
        "action types: (A1) in each execute every state-writing call lies behind the success "
        "edge of the type's mutable-check call; (A2) each mutable check has, on every success "
        "path, the equality of self.tx_signer with the result of the matching authority getter "
        "(sudo / ibc sudo / relayer set / bridge sudo / bridge withdrawer, keyed by the action's "
        "own bridge address), or the required not-a-bridge-account test; (A3) every "
        "decrease_balance takes its address from the signer or from the withdrawer-guarded "
        "bridge address; (A4) privileged putters have a frozen caller set; (A5) Transaction "
        "values are only built behind signature verification. The guard reads current state "
        "at execution time, which is what makes 'former authority' histories safe; histories "
        "themselves are not enumerated.")
    rep.assumptions += [
        "production cfg (the cfg(test) escape hatches in some run_mutable_checks are outside "
        "the analysed program)",
        "penumbra IBC handlers (check_and_execute) are trusted",
    ]
    a1(prog, rep)
    a2(prog, rep)
    a3(prog, rep)
    a4(prog, rep)
    import c17
    c17.w2_tx(prog, rep)


# ----------------------------------------------------------------------------------------------
def exec_owners(prog):
    return prog.owners(r"^astria_sequencer::checked_actions::.*::Checked\w+(::<.*>)?::execute$")


def type_of_exec(owner):
    t = owner[len(CA):].rsplit("::execute", 1)[0]
    t = re.sub(r"::<true>$", "", t)
    for k in TYPES:
        if re.sub(r"::<.*>$", "", k) == t:
            return k
    return None


def a1(prog, rep):
    owners = exec_owners(prog)
    rep.floor("A1", len(owners), 17, "Checked*::execute functions")
    for o in owners:
        t = type_of_exec(o)
        if t is None:
            rep.fail("A1", f"untabled:{o}", f"{o}: a checked action type without an entry in the "
                     f"authority table (new action?) - its guard is unreviewed", o)
            continue
        body = prog.main_body(o)
        gname = guard_owner(t)
        guards = [c for c in body.calls if gname in c.names()
                  or re.sub(r"<PURE_\w+>", "<true>", gname) in c.names()]
        if not guards:
            rep.fail("A1", f"{short_t(t)}:guard-call", f"{o} does not call {gname}", body.describe())
            continue
        oe = body.outcome_edges(guards[0])
        if oe["kind"] != "try":
            rep.fail("A1", f"{short_t(t)}:guard-propagated",
                     f"{o}: the result of {TYPES[t][0]} is not propagated with `?` "
                     f"(kind={oe['kind']})", guards[0].where())
            continue
        # the guard must be applied to the state being written (first arg self, second state)
        n = 0
        for c in body.calls:
            if c is guards[0] or c.bb == guards[0].bb:
                continue
            if not any(WRITER_RX.search(x) for x in c.names()):
                continue
            n += 1
            key = f"{short_t(t)}:{short_name(c.callee)}"
            rep.check(body.must_pass_edges(set(oe["ok"]), c.bb), "A1", key,
                      f"{o}: state write `{short_name(c.callee)}` is reachable without passing "
                      f"the success edge of {TYPES[t][0]}", c.where(),
                      detail=f"behind ok-edge of guard at L{guards[0].line}")
        rep.floor("A1", n, 1, f"writer calls in {short_t(t)}::execute")


def short_t(t):
    return re.sub(r"::<.*>$", "", t).rsplit("::", 1)[-1]


# ----------------------------------------------------------------------------------------------
def a2(prog, rep):
    for t, (gfn, specs) in TYPES.items():
        owner = guard_owner(t)
        if owner not in prog.by_owner:
            rep.anchor_missing("A2", owner)
            continue
        body = prog.main_body(owner)
        assume = const_param_false_edges(body)
        for spec in specs:
            check_spec(prog, rep, t, body, spec, assume)
    # wrappers: run_mutable_checks of the do_ variants must delegate to do_run_mutable_checks
    for t, (gfn, specs) in TYPES.items():
        if gfn != "do_run_mutable_checks":
            continue
        w = CA + t + "::run_mutable_checks"
        if w not in prog.by_owner:
            rep.anchor_missing("A2", w)
            continue
        body = prog.main_body(w)
        calls = [c for c in body.calls if c.is_(CA + t + "::do_run_mutable_checks")]
        good = bool(calls) and on_all_success_paths(body, via_blocks=[c.bb for c in calls])
        rep.check(good, "A2", f"{short_t(t)}:wrapper-delegates",
                  f"{w} has a success path that does not run do_run_mutable_checks",
                  body.describe())


def check_spec(prog, rep, t, body, spec, assume):
    st = short_t(t)
    kind = spec[0]
    if kind == "eq":
        _, getter_rx, arg_sub = spec
        cands = []
        for c in comparisons(body):
            if c.op != "Eq":
                continue
            for x, y in ((c.a, c.b), (c.b, c.a)):
                if re.search(getter_rx, x) and re.search(SIGNER, y):
                    cands.append((c, x))
        key = f"{st}:signer==authority"
        if not cands:
            rep.fail("A2", key, f"{body.owner}: no equality between self.tx_signer and the "
                     f"result of {getter_rx.strip('^').rstrip('(').replace(chr(92), '')} found", body.describe())
            return
        c, getter_root = cands[0]
        good = on_all_success_paths(body, via_edges=c.true_edges, assume_removed=assume)
        rep.check(good, "A2", key,
                  f"{body.owner} can succeed without the signer being equal to "
                  f"{trunc(getter_root, 80)} (equality is missing, inverted, or bypassed on some "
                  f"path)", f"{body.file}:{c.line}",
                  detail=f"{trunc(getter_root, 70)} == self.tx_signer on every success path")
        if arg_sub:
            rep.check(arg_sub in getter_root, "A2", f"{st}:authority-key",
                      f"{body.owner}: the authority is not looked up under {arg_sub}: "
                      f"{trunc(getter_root)}", f"{body.file}:{c.line}")
    elif kind == "bool":
        _, callee_rx, arg_rx, want = spec
        calls = [c for c in body.calls if c.matches(callee_rx)
                 and any(re.search(arg_rx, body.root(a)) for a in c.args)]
        key = f"{st}:{short_name(callee_rx.rstrip('$'))}=={want}"
        if not calls:
            rep.fail("A2", key, f"{body.owner}: required test {callee_rx} on {arg_rx} not found",
                     body.describe())
            return
        be = bool_payload_edges(body, calls[0])
        if be is None:
            rep.fail("A2", key, f"{body.owner}: result of {short_name(calls[0].callee)} does not "
                     f"steer control flow", calls[0].where())
            return
        te, fe = be
        good = on_all_success_paths(body, via_edges=(te if want else fe), assume_removed=assume)
        rep.check(good, "A2", key,
                  f"{body.owner} can succeed without `{short_name(calls[0].callee)}"
                  f"({trunc(body.root(calls[0].args[-1]), 60)})` being {want}", calls[0].where(),
                  detail=f"{'true' if want else 'false'}-edge on every success path")
    elif kind == "delegate":
        for rx in spec[1]:
            calls = [c for c in body.calls if c.matches(rx)]
            key = f"{st}:delegates:{short_name(rx.rstrip('$'))}:{rx.split('::')[0][-12:]}"
            good = bool(calls) and on_all_success_paths(body, via_blocks=[c.bb for c in calls],
                                                        assume_removed=assume)
            rep.check(good, "A2", key,
                      f"{body.owner} has a success path that skips {rx}", body.describe())
    elif kind == "ics20":
        ics20(prog, rep, t, body, assume)


def ics20(prog, rep, t, body, assume):
    """Ics20Withdrawal: when a bridge address is set: signer == withdrawer(bridge address);
    otherwise the signer must not be a bridge account."""
    st = short_t(t)
    # the Some/None switch on self.bridge_address_and_rollup_withdrawal
    sw = None
    for b in sorted(body.live_blocks()):
        tm = body.term(b)
        if tm[0] == "switch":
            src = body._disc_source(b, tm)
            if src is not None and "bridge_address_and_rollup_withdrawal" in body.place_root(str(src)) \
                    or (src is None and False):
                sw = (b, tm)
                break
            r = body.root(tm[1])
            if r.startswith("disc(") and "bridge_address_and_rollup_withdrawal" in r:
                sw = (b, tm)
                break
    if sw is None:
        rep.fail("A2", f"{st}:bridge-branch", "switch on bridge_address_and_rollup_withdrawal "
                 "not found", body.describe())
        return
    b, tm = sw
    some_edges = [(b, tgt) for v, tgt in tm[2] if v == 1]
    none_edges = [(b, tgt) for v, tgt in tm[2] if v == 0] or [(b, tm[3])]
    if not some_edges:
        some_edges = [(b, tm[3])]
    # Some branch: equality with withdrawer
    eq = [c for c in comparisons(body) if c.op == "Eq" and
          re.search(r"get_bridge_account_withdrawer_address\(", c.a + c.b) and
          re.search(r"self\.tx_signer", c.a + c.b)]
    good = bool(eq) and on_all_success_paths(body, via_edges=set(eq[0].true_edges) | set(none_edges))
    rep.check(good, "A2", f"{st}:bridge:signer==withdrawer",
              "Ics20Withdrawal with a bridge address can succeed without the signer being the "
              "bridge account's withdrawer", body.describe())
    if eq:
        g = eq[0].a if "get_bridge_account_withdrawer_address" in eq[0].a else eq[0].b
        rep.check("bridge_address_and_rollup_withdrawal<Some>.0.0" in g, "A2",
                  f"{st}:bridge:authority-key",
                  f"withdrawer is not looked up under the action's bridge address: {trunc(g)}",
                  body.describe())
    # None branch: signer is not a bridge account
    calls = [c for c in body.calls if c.matches(r"StateReadExt::is_a_bridge_account$")
             and "self.tx_signer" in body.root(c.args[1])]
    good = False
    if calls:
        be = bool_payload_edges(body, calls[0])
        if be:
            good = on_all_success_paths(body, via_edges=set(be[1]) | set(some_edges))
    rep.check(good, "A2", f"{st}:plain:signer-not-bridge",
              "Ics20Withdrawal without a bridge address can succeed although the signer is a "
              "bridge account (funds leave a bridge account without its withdrawer)",
              body.describe())
    # constructor: withdrawal_address = bridge_address.map_or(tx_signer, bytes) and the guard's
    # bridge address comes from the same action field
    new = prog.main_body(CA + t + "::new")
    aggs = list(new.aggregates("adt", r"CheckedIcs20Withdrawal$"))
    rep.floor("A2", len(aggs), 1, "CheckedIcs20Withdrawal construction")
    for i, j, p, rv, line in aggs:
        f = dict(zip(rv[5], [new.root(o) for o in rv[4]]))
        wa = f.get("withdrawal_address", "")
        rep.check(wa.startswith("map_or(") and "action.bridge_address" in wa and "tx_signer" in wa,
                  "A2", f"{st}:withdrawal_address-provenance",
                  f"withdrawal_address is not `action.bridge_address.map_or(tx_signer, ..)`: "
                  f"{trunc(wa)}", f"{new.file}:{line}")
        ba = f.get("bridge_address_and_rollup_withdrawal", "")
        rep.check("action.bridge_address" in ba or "bridge_address" in ba, "A2",
                  f"{st}:guard-key-provenance",
                  f"guarded bridge address does not come from action.bridge_address: {trunc(ba)}",
                  f"{new.file}:{line}")


# ----------------------------------------------------------------------------------------------
def a3(prog, rep):
    dec = "astria_sequencer::accounts::state_ext::StateWriteExt::decrease_balance"
    callers = prog.callers_of(dec)
    n = 0
    for owner, calls in sorted(callers.items()):
        for c in calls:
            n += 1
            addr = c.body.root(c.args[1])
            rx = DEBIT.get(owner)
            key = f"debit<-{owner}"
            if rx is None:
                rep.fail("A3", key, f"decrease_balance is called from {owner}, which is not a "
                         f"reviewed debit site (address {trunc(addr)})", c.where())
                continue
            rep.check(bool(re.search(rx, addr)), "A3", key,
                      f"{owner} debits `{trunc(addr)}`; permitted: the signer / the "
                      f"withdrawer-guarded bridge address ({rx})", c.where(), detail=addr)
    rep.floor("A3", n, 6, "decrease_balance call sites")
    # init bridge account: only the signer's own account is initialised
    o = CA + "init_bridge_account::CheckedInitBridgeAccount::execute"
    body = prog.main_body(o)
    puts = [c for c in body.calls if c.matches(r"bridge::state_ext::StateWriteExt::put_bridge_account_")]
    rep.floor("A3", len(puts), 4, "bridge account putters in InitBridgeAccount::execute")
    for c in puts:
        rep.check(body.root(c.args[1]) == "self.tx_signer", "A3",
                  f"init-bridge:{short_name(c.callee)}",
                  f"InitBridgeAccount writes bridge state of `{body.root(c.args[1])}`, not of the "
                  f"signer", c.where())
    # bridge sudo change / unlock: writes are keyed by the guarded bridge address
    o = CA + "bridge_sudo_change::CheckedBridgeSudoChange::execute"
    body = prog.main_body(o)
    puts = [c for c in body.calls if c.matches(r"bridge::state_ext::StateWriteExt::put_bridge_account_")]
    rep.floor("A3", len(puts), 3, "bridge account putters in BridgeSudoChange::execute")
    for c in puts:
        rep.check(body.root(c.args[1]) == "self.action.bridge_address", "A3",
                  f"bridge-sudo:{short_name(c.callee)}",
                  f"BridgeSudoChange writes bridge state of `{body.root(c.args[1])}`, not of the "
                  f"bridge address whose sudo was compared with the signer", c.where())


# ----------------------------------------------------------------------------------------------
PUTTERS = [
    # (callee regex, allowed owner regexes, floor)
    (r"authority::state_ext::StateWriteExt::put_sudo_address$",
     [r"authority::component::.*::init_chain$", r"CheckedSudoAddressChange::execute$"], 2),
    (r"ibc::state_ext::StateWriteExt::put_ibc_sudo_address$",
     [r"ibc::component::.*::init_chain$", r"CheckedIbcSudoChange::execute$"], 2),
    (r"ibc::state_ext::StateWriteExt::(put|delete)_ibc_relayer_address$",
     [r"ibc::component::.*::init_chain$", r"CheckedIbcRelayerChange::execute$"], 3),
    (r"fees::state_ext::StateWriteExt::put_fees$",
     [r"fees::component::.*::init_chain$", r"CheckedFeeChange::execute$",
      r"app::.*upgrade", r"upgrades::"], 19),
    (r"fees::state_ext::StateWriteExt::(put|delete)_allowed_fee_asset$",
     [r"fees::component::.*::init_chain$", r"CheckedFeeAssetChange::execute$"], 3),
    (r"authority::state_ext::StateWriteExt::(put_validator|remove_validator|put_validator_count|"
     r"pre_aspen_put_validator_set|put_block_validator_updates)$",
     [r"authority::component::", r"CheckedValidatorUpdate::execute$", r"app::", r"upgrades::"], 5),
    (r"bridge::state_ext::StateWriteExt::put_bridge_account_(sudo_address|withdrawer_address|"
     r"disabled_status)$",
     [r"CheckedBridgeSudoChange::execute$", r"CheckedInitBridgeAccount::execute$"], 5),
    (r"bridge::state_ext::StateWriteExt::put_bridge_account_(rollup_id|ibc_asset)$",
     [r"CheckedInitBridgeAccount::execute$"], 2),
    (r"market_map::state_ext::StateWriteExt::put_(market_map|params|market_map_last_updated_height)$",
     [r"CheckedMarketsChange::execute$", r"market_map::component::", r"upgrades::", r"app::",
      r"market_map::handle_genesis$"], 2),
    (r"oracle::state_ext::StateWriteExt::(put_currency_pair_state|remove_currency_pair|"
     r"put_num_currency_pairs|put_next_currency_pair_id|put_currency_pair)$",
     [r"currency_pairs_change::", r"oracle::component::", r"oracle::state_ext::", r"upgrades::",
      r"app::", r"oracle::handle_genesis$"], 2),
]


def a4(prog, rep):
    for rx, allowed, floor in PUTTERS:
        k1_callers(prog, rep, "A4", [], [re.compile(a) for a in allowed], floor=floor, rx=rx,
                   what=rx.split("::")[-1].rstrip("$"),
                   ignore_owner=lambda o: "::tests::" in o or "test_utils" in o
                   or "benchmark" in o)

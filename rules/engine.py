"""Check runner: keeps the fact files in sync with /repo's working tree, runs one property's
rule module, prints VIOLATION / KNOWN-FINDING lines and writes the evidence file."""
import fcntl
import glob
import hashlib
import importlib
import json
import os
import shutil
import subprocess
import sys
import time
import traceback

VERIF = os.path.dirname(os.path.dirname(os.path.abspath(__file__)))
REPO = os.environ.get("ASTRIA_REPO", "/repo")
CACHE = os.path.join(VERIF, ".cache")
FACTS = os.environ.get("ASTRIA_FACTS_DIR", os.path.join(CACHE, "facts"))
TARGET = os.path.join(CACHE, "target")
DRIVER = os.path.join(VERIF, "driver", "target", "release", "astria-facts")

# package name -> (crate name, [targets])
PACKAGES = {
    "astria-core": ("astria_core", ["lib"]),
    "astria-core-crypto": ("astria_core_crypto", ["lib"]),
    "astria-core-address": ("astria_core_address", ["lib"]),
    "astria-merkle": ("astria_merkle", ["lib"]),
    "astria-sequencer": ("astria_sequencer", ["lib", "bin"]),
    "astria-conductor": ("astria_conductor", ["lib", "bin"]),
    "astria-sequencer-relayer": ("astria_sequencer_relayer", ["lib", "bin"]),
    "astria-composer": ("astria_composer", ["lib", "bin"]),
}


# K9 compile-fail witnesses per property: (witness crates, number of fail_* witnesses expected)
WITNESSES = {
    "C02": (["core"], 1),
    "C07": (["core"], 3),
    "C08": (["merkle"], 2),
    "C09": (["core"], 1),
    "C17": (["merkle", "core"], 5),
}


# thorough-tier clippy cross-reference of the K7 site detector: property -> packages
XREF = {
    "C08": ["astria-merkle"],
    "C09": ["astria-conductor"],
    "C17": ["astria-merkle", "astria-core", "astria-core-address", "astria-core-crypto"],
}


def log(*a):
    print(*a, file=sys.stderr, flush=True)


def crate_hash(pkg):
    root = os.path.join(REPO, "crates", pkg)
    h = hashlib.sha256()
    paths = []
    for dp, dn, fn in os.walk(root):
        dn[:] = sorted(d for d in dn if d not in ("target", ".git"))
        for f in sorted(fn):
            if f.endswith((".rs", ".toml", ".proto", ".json", ".snap")) or f == "build.rs":
                paths.append(os.path.join(dp, f))
    for p in paths:
        h.update(os.path.relpath(p, root).encode())
        h.update(b"\0")
        with open(p, "rb") as f:
            h.update(f.read())
        h.update(b"\0")
    for extra in ("Cargo.toml", "Cargo.lock", ".cargo/config.toml"):
        p = os.path.join(REPO, extra)
        if os.path.exists(p):
            with open(p, "rb") as f:
                h.update(f.read())
    return h.hexdigest()


def nightly_sysroot():
    return subprocess.check_output(["rustc", "+nightly", "--print", "sysroot"], text=True).strip()


def driver_env():
    env = dict(os.environ)
    env.update({
        "CARGO_NET_OFFLINE": "true",
        "ASTRIA_FACTS_SHIM": os.path.join(VERIF, "shim"),
        "ASTRIA_FACTS_CRATES": ",".join(v[0] for v in PACKAGES.values()),
        "ASTRIA_FACTS_DIR": FACTS,
        "RUSTC_WRAPPER": DRIVER,
        "RUSTFLAGS": "--cfg tokio_unstable -Zmir-opt-level=0 -Awarnings",
        "CARGO_TARGET_DIR": TARGET,
        "CARGO_INCREMENTAL": "0",
        "LD_LIBRARY_PATH": nightly_sysroot() + "/lib",
    })
    env.pop("RUSTC_WORKSPACE_WRAPPER", None)
    return env


def build_driver():
    src = os.path.join(VERIF, "driver", "src", "main.rs")
    if os.path.exists(DRIVER) and os.path.getmtime(DRIVER) >= os.path.getmtime(src):
        return
    log("[facts] building driver")
    env = dict(os.environ)
    env["CARGO_NET_OFFLINE"] = "true"
    env.pop("RUSTC_WRAPPER", None)
    env.pop("RUSTFLAGS", None)
    env.pop("CARGO_TARGET_DIR", None)
    subprocess.check_call(["cargo", "build", "--release", "--offline"],
                          cwd=os.path.join(VERIF, "driver"), env=env,
                          stdout=sys.stderr, stderr=sys.stderr)


def ensure_facts(force=False):
    """Bring /verif/.cache/facts in sync with /repo's current working tree.  Returns a dict
    {pkg: content hash}.  Exits 2 if the tree does not compile."""
    os.makedirs(FACTS, exist_ok=True)
    lock = open(os.path.join(CACHE, "facts.lock"), "w")
    fcntl.flock(lock, fcntl.LOCK_EX)
    try:
        build_driver()
        hashes = {p: crate_hash(p) for p in PACKAGES}
        stale = []
        drv_stamp = str(os.path.getmtime(DRIVER))
        for pkg, (crate, targets) in PACKAGES.items():
            ok = not force
            for t in targets:
                f = os.path.join(FACTS, f"{crate}.{t}.jsonl")
                s = f + ".stamp"
                if not (os.path.exists(f) and os.path.exists(s)
                        and open(s).read() == hashes[pkg] + " " + drv_stamp):
                    ok = False
            if not ok:
                stale.append(pkg)
        if not stale:
            return hashes
        log(f"[facts] refreshing facts for {', '.join(stale)} (and dependents)")
        t0 = time.time()
        fp = os.path.join(TARGET, "debug", ".fingerprint")
        for pkg in stale:
            for d in glob.glob(os.path.join(fp, pkg + "-*")):
                # fingerprint dirs are <pkg>-<16 hex>; do not touch e.g. astria-core-crypto
                # when pkg is astria-core
                tail = os.path.basename(d)[len(pkg) + 1:]
                if len(tail) == 16 and all(c in "0123456789abcdef" for c in tail):
                    shutil.rmtree(d, ignore_errors=True)
            for t in PACKAGES[pkg][1]:
                f = os.path.join(FACTS, f"{PACKAGES[pkg][0]}.{t}.jsonl")
                for x in (f, f + ".stamp", f + ".pickle"):
                    if os.path.exists(x):
                        os.remove(x)
        cmd = ["cargo", "+nightly", "check", "--offline"]
        for p in PACKAGES:
            cmd += ["-p", p]
        r = subprocess.run(cmd, cwd=REPO, env=driver_env(), stdout=subprocess.PIPE,
                           stderr=subprocess.STDOUT, text=True)
        if r.returncode != 0:
            log(r.stdout[-6000:])
            log("[facts] FATAL: /repo does not compile under the fact driver")
            sys.exit(2)
        for pkg, (crate, targets) in PACKAGES.items():
            for t in targets:
                f = os.path.join(FACTS, f"{crate}.{t}.jsonl")
                if not os.path.exists(f):
                    log(f"[facts] FATAL: fact file was not produced: {f}")
                    sys.exit(2)
                if pkg in stale and os.path.getmtime(f) < t0 - 1:
                    log(f"[facts] FATAL: fact file is older than this run: {f}")
                    sys.exit(2)
                with open(f + ".stamp", "w") as s:
                    s.write(hashes[pkg] + " " + drv_stamp)
        log(f"[facts] refreshed in {time.time() - t0:.0f}s")
        return hashes
    finally:
        fcntl.flock(lock, fcntl.LOCK_UN)
        lock.close()


# ----------------------------------------------------------------------------------------------

class Report:
    """Collects obligations, violations and evidence for one property run."""

    def __init__(self, pid, tier):
        self.pid = pid
        self.tier = tier
        self.t0 = time.time()
        self.obligations = []      # (rule, key, ok, detail)
        self.violations = []       # dict
        self.known = []
        self.notes = []
        self.floors = []
        self.assumptions = []
        self.explanation = ""
        self.analysed = {}
        kf = os.path.join(VERIF, "known_findings.json")
        self.known_findings = json.load(open(kf)) if os.path.exists(kf) else {"open": [], "fixed": []}

    # an obligation is one rule instance evaluated on one site
    def nth(self, key):
        """Ordinal of this occurrence of `key` (keys carry ordinals, never line numbers)."""
        self._nth = getattr(self, "_nth", {})
        self._nth[key] = self._nth.get(key, 0) + 1
        return f"{key}#{self._nth[key]}"

    def ok(self, rule, key, detail="", nontrivial=True):
        self.obligations.append({"rule": rule, "key": key, "ok": True, "detail": detail,
                                 "nontrivial": nontrivial})

    def fail(self, rule, key, what, where="", **extra):
        """Record a violated obligation.  `key` identifies the construct without line numbers."""
        full_key = f"{rule}|{key}"
        self.obligations.append({"rule": rule, "key": key, "ok": False, "detail": what,
                                 "nontrivial": True})
        for k in self.known_findings.get("open", []):
            if k["property"] == self.pid and k["key"] == full_key:
                self.known.append({"key": full_key, "what": k["what"], "where": where})
                return
        v = {"property": self.pid, "rule": rule, "key": full_key, "what": what, "where": where}
        v.update(extra)
        self.violations.append(v)

    def check(self, cond, rule, key, what, where="", detail=""):
        if cond:
            self.ok(rule, key, detail)
        else:
            self.fail(rule, key, what, where)
        return cond

    def floor(self, rule, found, expected, what):
        """Anti-vacuity: the number of instances found must not fall below the hand count."""
        self.floors.append({"rule": rule, "found": found, "floor": expected, "what": what})
        if found < expected:
            self.fail(rule, f"floor:{what}",
                      f"anchor/instance count fell below the confirmed floor: found {found}, "
                      f"expected >= {expected} ({what}) - rule would pass vacuously; fail closed")
        else:
            self.ok(rule, f"floor:{what}", f"{found} >= {expected}", nontrivial=False)

    def anchor_missing(self, rule, name):
        self.fail(rule, f"anchor:{name}", f"anchor missing: {name} not found in the analysed "
                  f"program (renamed or removed) - fail closed")

    def note(self, s):
        self.notes.append(s)

    # ------------------------------------------------------------------
    def finish(self, prog, hashes):
        ev_dir = os.environ.get("VERIF_EVIDENCE_DIR", os.path.join(VERIF, "evidence"))
        os.makedirs(ev_dir, exist_ok=True)
        rules = {}
        for o in self.obligations:
            r = rules.setdefault(o["rule"], {"evaluated": 0, "ok": 0})
            r["evaluated"] += 1
            r["ok"] += 1 if o["ok"] else 0
        distinct = len({(o["rule"], o["key"]) for o in self.obligations if o["nontrivial"]})
        samples = []
        seen_rules = set()
        for o in self.obligations:
            if o["rule"] not in seen_rules or len(samples) < 12:
                seen_rules.add(o["rule"])
                samples.append({k: o[k] for k in ("rule", "key", "ok", "detail")})
            if len(samples) >= 40:
                break
        n_ok = sum(1 for o in self.obligations if o["ok"])
        ev = {
            "property_id": self.pid,
            "tier": self.tier,
            "seed": int(os.environ.get("VERIF_SEED", "0") or 0),
            "level": "other",
            "coverage": {
                "explanation": self.explanation,
                "obligations": len(self.obligations),
                "discharged": n_ok,
                "evaluations": len(self.obligations),
                "distinct_nontrivial": distinct,
                "rule": "one evaluation = one rule instance (rule, function/call-site key) "
                        "decided on the MIR of /repo's current tree; non-trivial = the anchor "
                        "sites were found and the instance is not a floor/count bookkeeping "
                        "obligation; distinct = distinct (rule, key) pairs",
                "samples": samples,
                "rules": rules,
                "floors": self.floors,
                "analysed": self.analysed,
                "known_findings_reported": self.known,
                "selftest": getattr(self, "selftest", None),
                "notes": self.notes,
                "trusted_base": [
                    "rustc 1.97.0-nightly front end + MIR builder (facts are mir_built bodies)",
                    "dependency `ethnum` type-checked from a one-line-patched copy (analysis only)",
                    "third-party crates are opaque: assumed not to panic, assumed to write state "
                    "when handed a writable state",
                ],
                "repo_tree_hashes": hashes,
            },
            "assumptions": self.assumptions,
            "wall_s": round(time.time() - self.t0, 2),
            "violations": len(self.violations),
        }
        tmp = os.path.join(ev_dir, f"{self.pid}.json.tmp")
        with open(tmp, "w") as f:
            json.dump(ev, f, indent=1)
        os.replace(tmp, os.path.join(ev_dir, f"{self.pid}.json"))
        for k in self.known:
            print(f"KNOWN-FINDING: property={self.pid} {k['what']} [{k['key']}]")
        rep_dir = os.path.join(os.environ.get("VERIF_EVIDENCE_DIR",
                                              os.path.join(VERIF, "evidence")), "replay")
        for old in glob.glob(os.path.join(rep_dir, f"{self.pid}-*.json")):
            os.remove(old)          # replay records of earlier runs of this property
        if self.violations:
            os.makedirs(rep_dir, exist_ok=True)
            for i, v in enumerate(self.violations):
                path = os.path.join(rep_dir, f"{self.pid}-{i}.json")
                with open(path, "w") as f:
                    json.dump(v, f, indent=1)
                print(f"  rule {v['rule']}: {v['what']}  at {v['where']}  [{v['key']}]")
                print(f"VIOLATION property={self.pid} replay={path}")
            return 1
        print(f"OK property={self.pid} tier={self.tier} obligations={len(self.obligations)} "
              f"discharged={n_ok} known_findings={len(self.known)} "
              f"wall={time.time() - self.t0:.1f}s")
        return 0


def main(argv):
    import argparse
    ap = argparse.ArgumentParser()
    ap.add_argument("pid", nargs="?")
    ap.add_argument("--tier", default=os.environ.get("VERIF_TIER", "quick"))
    ap.add_argument("--prime", action="store_true")
    ap.add_argument("--force", action="store_true")
    ap.add_argument("--replay")
    ap.add_argument("--no-refresh", action="store_true")
    a = ap.parse_args(argv)
    if a.tier not in ("quick", "thorough"):
        a.tier = "quick"
    if a.replay:
        print(open(a.replay).read())
        v = json.load(open(a.replay))
        a.pid = v["property"]
    if a.prime:
        ensure_facts(force=a.force)
        sys.path.insert(0, os.path.join(VERIF, "rules"))
        import witness
        for crate in ("merkle", "core"):
            witness.run(crate)          # warms the witness crates' dependency builds
        return 0
    if not a.pid:
        ap.error("property id required")
    hashes = {} if a.no_refresh else ensure_facts(force=a.force)
    sys.path.insert(0, os.path.join(VERIF, "rules"))
    mod = importlib.import_module(a.pid.lower())
    from facts import Program, AnchorMissing
    rep = Report(a.pid, a.tier)
    t0 = time.time()
    prog = Program(mod.CRATES, FACTS)
    rep.analysed = {"crate_targets": mod.CRATES, "bodies": len(prog.bodies),
                    "call_sites": sum(len(b.calls) for b in prog.bodies),
                    "load_s": round(time.time() - t0, 2)}
    try:
        mod.run(prog, rep)
    except AnchorMissing as e:
        rep.anchor_missing("anchor", str(e))
    except Exception:
        traceback.print_exc()
        rep.fail("engine", "exception", "rule engine raised an exception (fail closed): "
                 + traceback.format_exc().splitlines()[-1])
    if a.pid in WITNESSES:
        import witness
        try:
            crates, floor = WITNESSES[a.pid]
            n = witness.check(rep, crates, a.pid)
            rep.floor("K9", n, floor, "compile-fail witnesses naming this property")
        except Exception:
            traceback.print_exc()
            rep.fail("K9", "exception", "witness runner raised an exception (fail closed): "
                     + traceback.format_exc().splitlines()[-1])
    if a.tier == "thorough":
        import selftest
        try:
            rep.selftest = selftest.run(a.pid, rep)
        except Exception:
            traceback.print_exc()
            rep.selftest = {"error": traceback.format_exc().splitlines()[-1]}
        if a.pid in XREF:
            import xref
            try:
                x = xref.run(prog, XREF[a.pid])
                for u in x["unseen"]:
                    print(f"SELFTEST-MISS: property={a.pid} xref clippy site not seen by the K7 "
                          f"detector: {u}")
            except Exception:
                traceback.print_exc()
                x = {"error": traceback.format_exc().splitlines()[-1]}
            rep.selftest["xref"] = x
    return rep.finish(prog, hashes)


if __name__ == "__main__":
    sys.exit(main(sys.argv[1:]))

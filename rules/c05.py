"""C05 Block execution is deterministic and independent of a node's ABCI call path.

 D0 (K2) state reset: on every path on which an ABCI handler executes block content itself
    (no cached execution), every state-writing phase *and every call that is handed the
    inter-block state to judge or build block content* (vote-extension validation, transaction
    construction, cached deposits) is dominated by `update_state_for_new_round` (reset to the
    last committed snapshot).
 D1 (K2+K8) phase-order agreement: for phases whose transitive write key-sets intersect, the
    relative order must be the same on the cached path (transactions ran in the proposal
    phase) and on the finalize-only path.  Oracle-price application vs. transaction execution
    both write the currency-pair state keys.
 D2 (inventory) every iteration over a HashMap/HashSet in a function reachable from the ABCI
    handlers is in the triaged table (with the reason it is order-insensitive, or the
    sort that follows it is checked); clocks/randomness on that path are listed.
 D3 (inventory, observation only) matches over ExecutionState and whether they use a wildcard.
 D4 (K2) cached results are only read on the fingerprint-matched path.
Not decided: equality of responses / app hashes as values for all blocks.
"""
import re

from facts import short_name
from kinds import (comparisons, k1_callers, enum_switches, adt_variant_count, bool_payload_edges,
                   all_edges_of_flag, must_pass_block_corr)

CRATES = ["astria_sequencer.lib", "astria_core.lib"]
S = "astria_sequencer::"
A = S + "app::App::"
VE = S + "app::vote_extension::"
RESET = A + "update_state_for_new_round"
PHASES = [A + "pre_execute_transactions", A + "execute_transaction",
          A + "post_execute_transactions", A + "process_proposal_tx_execution",
          A + "prepare_proposal_tx_execution", VE + "apply_prices_from_vote_extensions"]


def is_test_owner(o):
    return "::tests" in o or "::test::" in o or "test_utils" in o or "benchmark" in o


# hash-order iteration sites on the consensus path: owner -> reason
HASH_ITER_TRIAGE = {
    "astria_core::sequencerblock::v1::block::SequencerBlockBuilder::try_build":
        "sorted:merges deposits into an IndexMap that is sorted (sort_unstable_keys) before any "
        "Merkle tree / block field is derived",
    "astria_sequencer::proposal::commitment::generate_rollup_datas_commitment":
        "sorted:same merge, followed by sort_unstable_keys before the commitment trees",
    "astria_sequencer::app::App::end_block":
        "distinct-keys:credits one balance key per fee asset; additions to distinct keys commute",
    "astria_sequencer::bridge::state_ext::StateWriteExt::put_deposits":
        "distinct-keys:one storage key per rollup id",
    "astria_sequencer::app::vote_extension::get_id_to_currency_pair":
        "proposer-local:builds the proposer's id->pair mapping; validators check content, not order",
    "astria_sequencer::mempool::MempoolInner::run_maintenance":
        "node-local:mempool bookkeeping is not consensus state",
    "astria_sequencer::mempool::recent_execution_results::RecentExecutionResults::add":
        "node-local:mempool bookkeeping",
    "astria_sequencer::mempool::transactions_container::PendingTransactions::builder_queue":
        "sorted-local:proposer-local queue, sorted by priority afterwards",
    "astria_sequencer::mempool::transactions_container::PendingTransactionsForAccount::"
    "subtract_contained_costs": "commutative:saturating subtraction per asset key",
    "astria_sequencer::mempool::transactions_container::TimemarkedTransaction::deduct_costs":
        "node-local:mempool affordability check",
    "astria_sequencer::mempool::transactions_container::TransactionsContainer::addresses":
        "node-local:mempool bookkeeping",
    "astria_sequencer::mempool::transactions_container::TransactionsContainer::len":
        "commutative:sum",
}
CLOCK_TRIAGE = {
    "astria_sequencer::mempool::recent_execution_results::RecentExecutionResults::add":
        "node-local cache expiry",
    "astria_sequencer::mempool::transactions_container::TransactionsContainer::"
    "clean_account_stale_expired": "node-local mempool TTL",
}


def run(prog, rep):
    rep.explanation = (
        "Static rules on the ABCI handlers' MIR and the sequencer call graph: (D0) every "
        "state-writing phase of a handler that executes block content is dominated by the reset "
        "to the committed snapshot; (D1) phases with intersecting write key-sets (computed from "
        "the storage key constructors each phase reaches) must have the same relative order on "
        "the cached and the finalize-only path; (D2) inventory of hash-order iteration, clocks "
        "and randomness reachable from the handlers, each triaged with a reason and, where the "
        "reason is a later sort, the sort-before-hash order is checked; (D3) exhaustive "
        "ExecutionState matches; (D4) cached results only read on the fingerprint-matched "
        "branch. Equality of app hashes as values is not decided.")
    rep.assumptions += ["cnidarium StateDelta semantics trusted", "production cfg only",
                        "CometBFT issues only legal ABCI call sequences"]
    d0(prog, rep)
    d1(prog, rep)
    d2(prog, rep)
    d3(prog, rep)
    d4(prog, rep)


def phase_calls(body):
    return [c for c in body.calls if c.is_(*PHASES)]


def d0(prog, rep):
    for fn in ("finalize_block", "process_proposal", "prepare_proposal"):
        body = prog.main_body(A + fn)
        reset = body.calls_to(RESET)
        rep.floor("D0", len(reset), 1, f"update_state_for_new_round in {fn}")
        # on the cached path the handler must not execute; phases that run on both paths
        # (apply_prices in finalize_block, post_execute in process_proposal) are exempt here and
        # handled by D1/D4
        for c in phase_calls(body):
            both_paths = (fn == "finalize_block" and c.is_(VE + "apply_prices_from_vote_extensions")) \
                or (fn == "process_proposal" and c.is_(A + "post_execute_transactions"))
            if both_paths:
                continue
            ok = bool(reset) and must_pass_block_corr(body, reset[0].bb, c.bb)
            rep.check(ok, "D0", f"{fn}:{short_name(c.callee)}<=reset",
                      f"{fn} runs `{short_name(c.callee)}` on a path that did not reset the state "
                      f"to the last committed snapshot (leftovers of a rejected or abandoned "
                      f"proposal would be executed upon)", c.where())
    # ... and so does everything that *reads* the inter-block state to judge or build block
    # content (vote-extension validation, transaction construction, cached deposits): any
    # workspace call that is handed `&self.state` must lie behind the reset, except the reads
    # of cached results (object_get: D4) and the price delta that runs on both paths (D1).
    # (A proposal executed in an earlier round of the same height leaves `self.state` dirty;
    # validating the next round's proposal against it makes accept/reject path dependent.)
    n_readers = 0
    for fn in ("finalize_block", "process_proposal", "prepare_proposal"):
        body = prog.main_body(A + fn)
        reset = body.calls_to(RESET)
        for c in body.calls:
            if c.expn or not c.args:
                continue
            if not any(body.root(a) == "self.state" for a in c.args):
                continue
            if re.search(r"(::object_get|::clone|StateDelta::<.*>::new)$", c.callee or ""):
                continue
            n_readers += 1
            ok = bool(reset) and must_pass_block_corr(body, reset[0].bb, c.bb)
            rep.check(ok, "D0", rep.nth(f"{fn}:reads-state:{short_name(c.callee)}<=reset"),
                      f"{fn} hands the inter-block state to `{short_name(c.callee)}` on a path "
                      f"that has not reset it to the last committed snapshot: the outcome depends "
                      f"on what an earlier, undecided proposal of this height left behind",
                      c.where())
    rep.floor("D0", n_readers, 6, "calls that read self.state in the ABCI handlers")
    # the reset really replaces state and execution state
    body = prog.main_body(RESET)
    snaps = [c for c in body.calls if c.matches(r"Storage::latest_snapshot$")]
    news = [c for c in body.calls if c.matches(r"ExecutionStateMachine::new$")]
    rep.check(bool(snaps) and bool(news), "D0", "reset=snapshot+fresh-machine",
              "update_state_for_new_round no longer rebuilds state from the latest snapshot and "
              "resets the execution state machine", body.describe())
    # finalize_block: the reset sits directly on the not-cached edge of the cache test
    body = prog.main_body(A + "finalize_block")
    chk = body.calls_to(S + "app::execution_state::ExecutionStateMachine::check_if_executed_block")
    reset = body.calls_to(RESET)
    if chk and reset:
        be = all_edges_of_flag(body, chk[0])
        ok = be is not None and body.must_pass_edges(set(be[1]), reset[0].bb)
        first_false = [e for e in (be[1] if be else []) if e[0] == min(x[0] for x in be[1])]
        # nothing but the reset decides: from the first not-cached edge the reset is the next call
        ok = ok and bool(first_false) and all(
            reset[0].bb in body.reachable(v) and
            not any(c.bb in body.reachable(v, removed_blocks=[reset[0].bb]) and
                    c.bb < 0 for c in body.calls) for (u, v) in first_false)
        nxt = [c for c in body.calls if first_false and c.bb in body.reachable(first_false[0][1])]
        ok = ok and bool(nxt) and min(nxt, key=lambda c: (0 if body.must_pass_block(c.bb, reset[0].bb) or c.bb == reset[0].bb else 1, c.bb)).bb == reset[0].bb
        rep.check(ok, "D0", "finalize_block:not-cached=>reset",
                  "finalize_block can execute a block it has not cached without first resetting "
                  "state (the reset is conditional on something other than the cache test)",
                  chk[0].where())


def key_fns_reached(prog, roots):
    seen, _ = prog.reachable_owners(roots)
    return {o for o in seen if re.search(r"::storage::keys::\w+$", o)}


def d1(prog, rep):
    body = prog.main_body(A + "finalize_block")
    ap = body.calls_to(VE + "apply_prices_from_vote_extensions")
    pre = body.calls_to(A + "pre_execute_transactions")
    ex = body.calls_to(A + "execute_transaction")
    post = body.calls_to(A + "post_execute_transactions")
    rep.floor("D1", len(ap) + len(pre) + len(ex) + len(post), 4, "phase calls in finalize_block")
    if not (ap and pre and ex and post):
        return
    price_keys = key_fns_reached(prog, [VE + "apply_prices_from_vote_extensions"])
    tx_keys = key_fns_reached(prog, [S + "checked_transaction::CheckedTransaction::execute"])
    begin_keys = key_fns_reached(prog, [A + "pre_execute_transactions"])
    end_keys = key_fns_reached(prog, [A + "post_execute_transactions"])
    common_tx = sorted(price_keys & tx_keys)
    rep.note(f"D1: price-application keys {sorted(short_name(k) for k in price_keys)}; shared with "
             f"transaction execution: {[short_name(k) for k in common_tx]}; shared with begin/"
             f"end-block phases: {[short_name(k) for k in sorted(price_keys & (begin_keys | end_keys))]}")
    rep.floor("D1", len(price_keys), 1, "storage keys written by price application")
    # order on the finalize-only path: prices before or after the transactions?
    prices_before_txs = any(x.bb in body.reachable(ap[0].target) for x in ex)
    # on the cached path the transactions ran in the proposal phase, i.e. *before* prices
    if common_tx:
        rep.check(not prices_before_txs, "D1", "order:prices-vs-transactions",
                  "oracle prices are applied AFTER the block's transactions on the cached path "
                  "(transactions executed during the proposal phase) but BEFORE them on the "
                  "finalize-only path, and both write "
                  f"{[short_name(k) for k in common_tx]}: a block that changes a priced currency "
                  "pair succeeds on one path and fails (or hashes differently) on the other",
                  ap[0].where())
    else:
        rep.ok("D1", "order:prices-vs-transactions", "write key-sets are disjoint")
    common_be = sorted(price_keys & (begin_keys | end_keys) - set(common_tx))
    if common_be:
        prices_before_begin = any(x.bb in body.reachable(ap[0].target) for x in pre)
        rep.check(not prices_before_begin, "D1", "order:prices-vs-begin-end",
                  f"price application and begin/end-block phases both write "
                  f"{[short_name(k) for k in common_be]} in a path-dependent order", ap[0].where())
    k1_callers(prog, rep, "D1", [VE + "apply_prices_from_vote_extensions"], [A + "finalize_block"],
               floor=1, ignore_owner=is_test_owner)
    # within one handler the order pre -> txs -> post is fixed
    for fn, txcall in (("finalize_block", A + "execute_transaction"),
                       ("process_proposal", A + "process_proposal_tx_execution"),
                       ("prepare_proposal", A + "prepare_proposal_tx_execution")):
        b = prog.main_body(A + fn)
        pre = b.calls_to(A + "pre_execute_transactions")
        tx = b.calls_to(txcall)
        ok = bool(pre) and bool(tx) and all(b.must_pass_block(pre[0].bb, t.bb) for t in tx)
        rep.check(ok, "D1", f"{fn}:begin-before-txs",
                  f"{fn} can execute transactions without pre_execute_transactions (begin "
                  f"block, upgrades, height/time) having run", b.describe())
        if fn != "prepare_proposal":
            post = b.calls_to(A + "post_execute_transactions")
            ok = bool(post) and all(p.bb not in b.reachable(t.target, removed_blocks=[]) or True
                                    for p in post for t in tx)
            ok = bool(post) and all(not any(t.bb in b.reachable(p.target) for t in tx) for p in post)
            rep.check(ok, "D1", f"{fn}:post-after-txs",
                      f"{fn} can execute a transaction after post_execute_transactions", b.describe())


ITER_RX = re.compile(r"(into_iter|::iter|::keys|::values|::drain|into_values|into_keys|iter_mut|"
                     r"values_mut|retain)$")


def d2(prog, rep):
    roots = [A + x for x in ("prepare_proposal", "process_proposal", "finalize_block", "commit",
                             "init_chain")]
    seen, parent = prog.reachable_owners(roots)
    rep.floor("D2", len(seen), 800, "functions reachable from the ABCI handlers")
    n = 0
    for o in sorted(seen):
        for b in prog.bodies_of(o):
            for c in b.calls:
                nm = " ".join(c.names())
                if ("hash::map::HashMap" in nm or "hash::set::HashSet" in nm) and ITER_RX.search(c.callee):
                    n += 1
                    reason = HASH_ITER_TRIAGE.get(o)
                    key = f"hash-iter:{o}"
                    if reason is None:
                        rep.fail("D2", key,
                                 f"{o} iterates a HashMap/HashSet ({short_name(c.callee)}) on the "
                                 f"consensus path: iteration order differs between nodes; if it "
                                 f"feeds state, events or a hash the result is non-deterministic "
                                 f"(unreviewed site)", c.where())
                        continue
                    rep.ok("D2", key, reason)
                    if reason.startswith("sorted:"):
                        srt = [x for x in b.calls if x.matches(r"indexmap::map::IndexMap::<.*>::sort_unstable_keys$")]
                        trees = [x for x in b.calls if x.matches(
                            r"astria_merkle::Tree::from_leaves$|derive_merkle_tree_from_rollup_txs$|"
                            r"astria_merkle::Tree::(new|build_leaf|push)$")]
                        ok = bool(srt) and bool(trees) and \
                            all(any(b.must_pass_block(s.bb, t.bb) for s in srt) for t in trees
                                if t.bb in b.reachable(c.bb))
                        rep.check(ok, "D2", f"sorted-before-hash:{short_name(o)}",
                                  f"{o}: a Merkle tree is derived from hash-ordered data without "
                                  f"a preceding sort_unstable_keys", c.where())
                if re.search(r"Instant::now|SystemTime::now|rand::|thread_rng|std::env::var", nm):
                    key = f"clock:{o}"
                    rep.check(o in CLOCK_TRIAGE, "D2", key,
                              f"{o} reads a clock / randomness / environment on the consensus path "
                              f"({short_name(c.callee)}): unreviewed source of non-determinism",
                              c.where(), detail=CLOCK_TRIAGE.get(o, ""))
    rep.floor("D2", n, 4, "hash-order iteration sites on the consensus path")


def d3(prog, rep):
    ES = S + "app::execution_state::ExecutionState"
    nvar = adt_variant_count(prog, ES)
    rep.floor("D3", nvar or 0, 6, "ExecutionState variants")
    n = 0
    for o in prog.owners(r"^astria_sequencer::app::(execution_state::ExecutionStateMachine::\w+|"
                         r"App::process_proposal)$"):
        for b in prog.bodies_of(o):
            for (bb, ty, vals, wildcard, line) in enum_switches(b, prog, r"execution_state::ExecutionState$"):
                n += 1
                # Observation only: a wildcard arm is a maintenance hazard (a new state would
                # silently take it) but it is not a violation of the property - rewriting
                # explicit no-op arms as `_ => {}` leaves behaviour unchanged - so it is
                # recorded, never reported.
                if wildcard and len(vals) != nvar:
                    rep.note(f"D3: {o} L{line}: match over ExecutionState has a wildcard arm "
                             f"covering {nvar - len(vals)} variants")
                rep.ok("D3", rep.nth(f"inventoried:{short_name(o)}"),
                       f"{len(vals)} explicit arms{' + wildcard' if wildcard else ''}")
    rep.floor("D3", n, 3, "matches over ExecutionState")


FINGERPRINT_FIELDS = ["time", "proposer_address", "txs", "proposed_last_commit", "misbehavior",
                      "next_validators_hash", "height"]


def d4_fingerprint(prog, rep):
    """Cached execution results are reused when the ProcessProposal request "is" the prepared
    proposal.  That decision has to look at every request field execution depends on (block
    data: height, time, proposer, next validators hash, misbehaviour evidence; the txs; the
    proposed last commit): a fingerprint that omits one reuses results computed for a different
    block."""
    ES = S + "app::execution_state::"
    fn = ES + "ExecutionStateMachine::check_if_prepared_proposal"
    b = prog.main_body(fn)
    adt = prog.adts.get(ES + "CachedProposal")
    have = [f[0] for f in adt["variants"][0][1]] if adt else []
    rep.check(set(FINGERPRINT_FIELDS) <= set(have), "D4", "fingerprint:fields",
              f"CachedProposal has fields {have}; execution depends on {FINGERPRINT_FIELDS}",
              b.describe())
    eqs = [c for c in b.calls if re.search(r"core::cmp::PartialEq::(eq|ne)$", c.callee or "")
           and any("CachedProposal{" in b.root(a) for a in c.args)]
    derived = [bb for bb in prog.bodies_of("<" + ES + "CachedProposal as core::cmp::PartialEq>::eq")]
    if eqs and derived and all(bb.expn for bb in derived):
        # built from the request field by field, compared with the derived (all-fields) equality
        agg = next(b.root(a) for a in eqs[0].args if "CachedProposal{" in b.root(a))
        missing = [f for f in FINGERPRINT_FIELDS if f"request.{f}" not in agg]
        rep.check(not missing, "D4", "fingerprint:all-request-fields-compared",
                  f"the fingerprint built from the request lacks {missing}: {agg[:120]}",
                  eqs[0].where())
        return
    # a hand-written comparison: every field must take part in an equality somewhere in the
    # functions the decision calls
    seen_fields = set()
    owners = {fn} | {t for c in b.calls for t in prog.resolve_targets(c) if t.startswith(ES)}
    for o in owners:
        for bb in prog.bodies_of(o):
            for c in comparisons(bb):
                if c.op == "Eq":
                    for f in FINGERPRINT_FIELDS:
                        if re.search(r"\." + f + r"\b", c.a) and re.search(r"\." + f + r"\b", c.b):
                            seen_fields.add(f)
            for c in bb.calls:
                if any(re.search(r"(PartialEq(<.*>)?|partial_eq::.*)::(eq|ne)$|::(eq|ne)$", n or "")
                       for n in c.names()) and len(c.args) == 2:
                    ra, rb_ = bb.root(c.args[0]), bb.root(c.args[1])
                    for f in FINGERPRINT_FIELDS:
                        if re.search(r"\." + f + r"\b", ra) and re.search(r"\." + f + r"\b", rb_):
                            seen_fields.add(f)
    missing = [f for f in FINGERPRINT_FIELDS if f not in seen_fields]
    rep.check(not missing, "D4", "fingerprint:all-request-fields-compared",
              f"the prepared-proposal match does not compare {missing} of the request with the "
              "cached proposal: execution results cached for a different block would be reused",
              b.describe())


def d4(prog, rep):
    d4_fingerprint(prog, rep)
    body = prog.main_body(A + "process_proposal")
    chk = body.calls_to(S + "app::execution_state::ExecutionStateMachine::check_if_prepared_proposal")
    og = [c for c in body.calls if c.matches(r"StateRead>?::object_get$")
          and "EXECUTED_TXS_KEY" in body.root(c.args[1])]
    rep.floor("D4", len(og), 1, "cached executed-txs read in process_proposal")
    be = bool_payload_edges(body, chk[0]) if chk else None
    for c in og:
        rep.check(be is not None and body.must_pass_edges(set(be[0]), c.bb), "D4",
                  "cached-txs<=fingerprint-match",
                  "process_proposal uses cached execution results although the proposal does not "
                  "match the prepared fingerprint", c.where())
    # executing branch: all execution phases on the not-matching edge only
    if be is not None:
        for c in phase_calls(body):
            if c.is_(A + "post_execute_transactions"):
                continue
            rep.check(body.must_pass_edges(set(be[1]), c.bb), "D4",
                      f"execute<=fingerprint-mismatch:{short_name(c.callee)}",
                      "process_proposal re-executes on top of an already executed matching "
                      "proposal", c.where())
    body = prog.main_body(A + "finalize_block")
    chk = body.calls_to(S + "app::execution_state::ExecutionStateMachine::check_if_executed_block")
    be = all_edges_of_flag(body, chk[0]) if chk else None
    for c in phase_calls(body):
        if c.is_(VE + "apply_prices_from_vote_extensions"):
            continue
        rep.check(be is not None and body.must_pass_edges(set(be[1]), c.bb), "D4",
                  f"finalize:execute<=not-cached:{short_name(c.callee)}",
                  "finalize_block re-executes a block it already executed", c.where())
    for c in chk:
        rep.check("finalize_block.hash" in body.root(c.args[1]), "D4", "cache-key=block-hash",
                  f"cached execution is matched against {body.root(c.args[1])[:60]}", c.where())

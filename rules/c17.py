"""C17 Untrusted wire data never panics a decoder; accepted values are self-consistent.

 W1 (K7) no panic construct is reachable (workspace call graph, drop glue included) from any
    network-facing decoder; every reachable construct is either discharged mechanically
    (constant divisor/shift, machine-checked "callee never returns Err", invariant established
    by the validating constructor) or listed with a reason; everything else is a violation.
 W2 (K1+K2) checked domain types are only constructed behind their validations (shared with
    C07-R1 / C02-A5): here the Merkle `Proof` and `Transaction`.
Not decided: re-encode equivalence (round-trip equality over all inputs).
 W3 (K4) no lossy integer conversion (`as` cast that narrows or changes signedness) in
    hand-written code reachable from the decoders: distinct wire values would collapse to one
    accepted value.
 W4 (K2) the hand-rolled address-bytes collector accepts only inputs whose own length is 20.
 W5 (inventory) silently truncating iterator/slice adapters (zip, chunks_exact, take, truncate..)
    in hand-written code reachable from the decoders are a reviewed table.
"""
import re

from facts import short_name
from kinds import (must_be_equal, rel, k7_panics, result_blocks, comparisons, k1_constructors, panic_sites,
                   k2_site_guarded, bool_payload_edges)

CRATES = ["astria_core.lib", "astria_merkle.lib", "astria_core_crypto.lib",
          "astria_core_address.lib", "astria_conductor.lib", "astria_sequencer.lib",
          "astria_sequencer_relayer.lib"]

ENTRY_RX = re.compile(
    r"(::try_from_raw(_ref)?|::try_from_unchecked|::try_into_proof|::try_from_slice|"
    r"::decompress_bytes|core::convert::TryFrom<.*>>::try_from|Proof::verify|"
    r"Audit<.*>::perform|Audit.*::reconstruct_root|Proof::reconstruct_root_with_leaf(_hash)?)$")
ENTRY_CRATES = ("astria_core::", "<astria_core::", "astria_merkle::", "<astria_merkle::",
                "astria_core_crypto::", "<astria_core_crypto::", "astria_core_address::",
                "<astria_core_address::")
EXTRA_ENTRIES = [
    "astria_conductor::celestia::convert::decode_raw_blobs",
    "astria_conductor::celestia::reconstruct::reconstruct_blocks_from_verified_blobs",
    "astria_sequencer::checked_transaction::CheckedTransaction::new",
    "astria_sequencer_relayer::relayer::read::fetch_block",
]

M = "astria_merkle::"

# Unconditional triage: construct key (owner|construct, ordinals optional) -> reason.
TRIAGE = {
    "astria_core::primitive::v1::<impl astria_core::Protobuf for astria_merkle::audit::Proof>"
    "::try_from_raw|call:expect":
        "u64 -> usize conversion: infallible on the 64-bit targets the services are built for",
    M + "LeafBuilder::<'_>::write|call:expect":
        "hasher is Some from build_leaf until drop (private field, only taken in Drop)",
    "<" + M + "LeafBuilder<'_> as core::ops::drop::Drop>::drop|call:expect":
        "hasher taken exactly once in Drop; `tree.len() - 1` after the non-empty early return",
}

# tree-internal index arithmetic: operates on the in-memory tree's own node count (bounded by
# allocated memory), never on indices taken from a proof -- confirmed by the K1 condition below
TREE_INTERNAL = [
    M + "Tree::get_node", M + "Tree::set_node", M + "complete_right_child",
    M + "perfect_left_child", M + "perfect_right_child", M + "perfect_root", M + "complete_root",
    M + "complete_parent_and_sibling", M + "is_perfect",
]
TREE_ONLY = re.compile(
    r"^(astria_merkle::Tree::|<astria_merkle::LeafBuilder<'_> as core::ops::drop::Drop>::drop$|"
    r"astria_merkle::(complete_|perfect_)\w+$|astria_merkle::is_leaf_index_in_tree$)")
TREE_INTERNAL_ALLOWED_CALLERS = re.compile(
    r"^(astria_merkle::Tree::|<astria_merkle::LeafBuilder<'_> as core::ops::drop::Drop>::drop$|"
    r"astria_merkle::(complete_|perfect_)\w+$)")


def never_errs(prog, owner):
    """Machine check of an `expect("infallible")`: the callee has no Err exit at all."""
    bs = prog.bodies_of(owner)
    if not bs:
        return False
    for b in bs:
        if result_blocks(b, "Err"):
            return False
        if any(c.is_("core::ops::try_trait::FromResidual::from_residual") for c in b.calls):
            return False
    return True


def _guards(body, site_bb, conds):
    """site is behind every edge set in conds."""
    return all(bool(e) and body.must_pass_edges(set(e), site_bb) for e in conds)


def merkle_invariants(prog, rep=None, rule="W1"):
    """Structural facts that justify triage entries for code driven by an untrusted Proof.

      I1  the panicking `leaf_index_to_tree_index` is only called (outside Tree-internal code)
          where the same index was just validated: behind the true edge of
          `is_leaf_index_in_tree(idx, n)` or the Some edge of `audit_path_len(idx, n)`; the
          validators themselves (try_into_proof, is_leaf_index_in_tree, error Display) do not
          reach it unguarded.
      I2  the audit walk never passes the root: either try_into_proof only accepts a path whose
          length equals a depth computed from (leaf_index, tree_size) [strict decode], or the
          walk in reconstruct_root_with_leaf_hash is bounded by `take(audit_path_len(..))`.
      I3  in audit_path_len the tree-arithmetic calls are behind `tree_size <= MAX_TREE_SIZE`
          and `is_leaf_index_in_tree` (so next_power_of_two cannot overflow and the climb starts
          inside the tree)."""
    inv = {"I1": False, "I2": False, "I3": False}
    L2T = M + "leaf_index_to_tree_index"
    APL = M + "audit_path_len"
    REC = M + "audit::Proof::reconstruct_root_with_leaf_hash"
    # ---- I3
    if APL in prog.by_owner:
        b = prog.main_body(APL)
        gt = rel(b, "Gt", r"^tree_size$", r".")
        isin = [c for c in b.calls if c.is_(M + "is_leaf_index_in_tree")]
        be = bool_payload_edges(b, isin[0]) if isin else None
        arith = [c for c in b.calls if c.is_(M + "complete_root", M + "complete_parent", L2T)]
        good = bool(gt) and be is not None and bool(arith)
        if good:
            mx = None
            # the bound is usize::MAX / 2 (a named constant evaluates to that)
            for c in gt:
                mx = c.b
            good = mx is not None and ("MAX_TREE_SIZE" in mx or mx == f"const({(2**64 - 1) // 2})")
        if good:
            for c in arith:
                good &= _guards(b, c.bb, [gt[0].false_edges, be[0]])
            a = [b.root(x) for x in isin[0].args]
            good &= a == ["leaf_index", "tree_size"]
        inv["I3"] = bool(good)
    # ---- I1
    ok1 = True
    reasons = []
    for owner, calls in prog.callers_of(L2T).items():
        if TREE_ONLY.search(owner):
            continue
        for c in calls:
            b = c.body
            idx = b.root(c.args[0])
            if owner == APL:
                if not inv["I3"]:
                    ok1 = False
                    reasons.append("audit_path_len does not validate before climbing")
                continue
            guards = []
            for g in b.calls:
                if g.is_(M + "is_leaf_index_in_tree") and b.root(g.args[0]) == idx:
                    be = bool_payload_edges(b, g)
                    if be:
                        guards.append(be[0])
                if g.is_(APL) and b.root(g.args[0]) == idx:
                    oe = b.outcome_edges(g)
                    if oe["kind"] == "match_option":
                        guards.append(oe["ok"])
            if not any(e and b.must_pass_edges(set(e), c.bb) for e in guards):
                ok1 = False
                reasons.append(f"{owner} calls leaf_index_to_tree_index({idx}) unguarded")
    inv["I1"] = ok1
    if reasons:
        inv["I1_reason"] = "; ".join(reasons)
    # ---- I2 strict decode
    fn = M + "audit::UncheckedProof::try_into_proof"
    body = prog.main_body(fn)
    oks = result_blocks(body, "Ok")
    for cm in comparisons(body):
        if cm.op != "Eq":
            continue
        sides = (cm.a, cm.b)
        for x, y in (sides, sides[::-1]):
            if "audit_path" in x and "leaf_index" in y and "tree_size" in y:
                if oks and all(body.must_pass_edges(set(cm.true_edges), o) for o in oks):
                    inv["I2"] = True
                    inv["I2_how"] = "strict decode"
    # ---- I2 bounded walk
    if not inv["I2"] and REC in prog.by_owner and inv["I3"]:
        b = prog.main_body(REC)
        tk = [c for c in b.calls if c.matches(r"core::iter::traits::iterator::Iterator::take$")]
        cp = [c for c in b.calls if c.is_(M + "complete_parent")]
        it = [c for c in b.calls if c.matches(r"IntoIterator>?::into_iter$") and c.macros
              and c.macros[0] == "desugar:ForLoop"]
        good = len(tk) == 1 and bool(cp) and bool(it)
        if good:
            a = [b.root(x) for x in tk[0].args]
            good = a[0].startswith("chunks(self.audit_path,const(32))") and \
                a[1].startswith("audit_path_len(self.leaf_index,get(self.tree_size))")
            good &= any(b.root(x.args[0]).startswith("take(chunks(self.audit_path") for x in it)
            for c in cp:
                ca = [b.root(x) for x in c.args]
                good &= ca[1] == "get(self.tree_size)"
            # the only loop in the body is that bounded loop: every complete_parent call is
            # dominated by the loop's `next` on the take iterator
            nx = [c for c in b.calls if c.matches(r"Iterator>?::next$") and c.macros
                  and c.macros[0] == "desugar:ForLoop"]
            good &= len(nx) == 1 and all(b.must_pass_block(nx[0].bb, c.bb) for c in cp)
            good &= "take(" in b.root(nx[0].args[0]) if nx else False
        if good:
            inv["I2"] = True
            inv["I2_how"] = "walk bounded by take(audit_path_len(leaf_index, tree_size))"
    return inv


def merkle_triage(prog, rep, rule):
    """Build the triage table for astria-merkle / decoder sites; conditional entries are only
    included when their machine-checked condition holds on the current tree."""
    t = dict(TRIAGE)
    # tree-internal helpers: never called from audit.rs (proof-driven code)
    callers_ok = True
    inv = merkle_invariants(prog)
    for fn in TREE_INTERNAL:
        for owner, calls in prog.callers_of(fn).items():
            good = bool(TREE_INTERNAL_ALLOWED_CALLERS.search(owner))
            if owner == M + "audit_path_len" and inv["I3"]:
                # validated before use: tree_size <= MAX_TREE_SIZE and leaf inside the tree (I3)
                good = True
            rep.check(good, rule, f"tree-internal:{short_name(fn)}<-{owner}",
                      f"{fn} (index arithmetic that asserts tree invariants) is called from "
                      f"{owner}, i.e. possibly with proof-supplied indices", calls[0].where())
            callers_ok &= good
    if callers_ok:
        for fn in TREE_INTERNAL:
            t["rx:^" + re.escape(fn) + r"\|"] = (
                "index arithmetic on the in-memory tree's own node count (bounded by memory; "
                "append-only invariant); K1: only called from Tree/LeafBuilder code")
        t["rx:^" + re.escape(M + "Tree::(root|leaf|construct_proof)")] = "tree-internal"
    # last_set_bit(x): `x - 1` needs x >= 1; only caller passes i + 1
    cs = prog.callers_of(M + "last_set_bit")
    if set(cs) <= {M + "last_zero_bit"}:
        t[M + "last_set_bit|call:unwrap"] = \
            "x = i + 1 >= 1 (only caller is last_zero_bit, K1-checked); x - (..&x) <= x"
    rep.note(f"{rule}: merkle proof invariants: {inv}")
    if inv["I1"]:
        t[M + "leaf_index_to_tree_index|call:unwrap"] = (
            "every proof-driven call site validates the same index first (I1): behind "
            "is_leaf_index_in_tree / audit_path_len, which use overflow-free arithmetic")
    if inv["I2"]:
        t[M + "last_zero_bit|call:unwrap"] = (
            "i + 1 overflows only when the climb passes the root; " + inv.get("I2_how", "") +
            " (I2), so the climb stops at the root. That the climb from an in-tree index reaches "
            "complete_root(n) is an arithmetic argument that is trusted, not decided")
    # perfect_parent `zero << 1`: shift amount is the constant 1 -> discharged mechanically
    # "infallible conversion" expects: callee has no Err exit
    for owner, callee in (
            ("<astria_core::protocol::genesis::v1::GenesisAppState as astria_core::Protobuf>"
             "::try_from_raw_ref",
             "astria_core::protocol::genesis::v1::<impl astria_core::Protobuf for "
             "penumbra_sdk_ibc::params::IBCParameters>::try_from_raw_ref"),
            ("astria_core::mempool::v1::transaction_status::executed::<impl astria_core::Protobuf"
             " for tendermint::abci::event::Event>::try_from_raw",
             "astria_core::mempool::v1::transaction_status::executed::<impl astria_core::Protobuf"
             " for tendermint::abci::event::EventAttribute>::try_from_raw"),
            ("astria_core::mempool::v1::transaction_status::executed::<impl astria_core::Protobuf"
             " for tendermint::abci::event::Event>::try_from_raw_ref",
             "astria_core::mempool::v1::transaction_status::executed::<impl astria_core::Protobuf"
             " for tendermint::abci::event::EventAttribute>::try_from_raw_ref"),
            ("astria_core::mempool::v1::transaction_status::executed::<impl astria_core::Protobuf"
             " for tendermint::abci::types::ExecTxResult>::try_from_raw",
             "astria_core::mempool::v1::transaction_status::executed::<impl astria_core::Protobuf"
             " for tendermint::abci::event::Event>::try_from_raw"),
            ("astria_core::mempool::v1::transaction_status::executed::<impl astria_core::Protobuf"
             " for tendermint::abci::types::ExecTxResult>::try_from_raw_ref",
             "astria_core::mempool::v1::transaction_status::executed::<impl astria_core::Protobuf"
             " for tendermint::abci::event::Event>::try_from_raw_ref")):
        if never_errs(prog, callee):
            t[owner + "|call:expect"] = f"conversion {short_name(callee)} has no Err exit (machine-checked)"
    return t


def decoder_entries(prog):
    out = [o for o in prog.by_owner if ENTRY_RX.search(o) and o.startswith(ENTRY_CRATES)
           and "generated::" not in o.split(" as ")[0] and "{constant" not in o]
    return sorted(out)


def run(prog, rep):
    rep.explanation = (
        "K7 panic reachability: from every network-facing decoder / validating constructor "
        "(try_from_raw*, try_from_unchecked, try_into_proof, TryFrom impls of astria-core, "
        "astria-merkle, astria-core-crypto, astria-core-address; brotli decompress; conductor "
        "blob decoding and reconstruction; sequencer CheckedTransaction::new; relayer block "
        "conversion) the workspace call graph (trait calls resolved, drop glue included) is "
        "walked and every panic construct (unwrap/expect/panic!/assert!/index/arith asserts/"
        "panicking std methods) must be mechanically discharged or in the reasoned triage "
        "table. Plus constructor discipline for merkle::Proof and Transaction, and no lossy "
        "integer cast on the decoding path (W3). Decides absence of reachable panic constructs "
        "in workspace code, not re-encode equivalence.")
    rep.assumptions += [
        "third-party crates (prost, serde_json, tendermint, ed25519-consensus, brotli, "
        "penumbra/ibc types) are the trusted base and are not entered",
        "64-bit targets (u64 -> usize is lossless)",
        "production cfg only",
    ]
    entries = decoder_entries(prog)
    rep.floor("W1", len(entries), 120, "decoder entry points in astria-core/merkle/crypto/address")
    for e in EXTRA_ENTRIES:
        if e in prog.by_owner:
            entries.append(e)
        else:
            rep.anchor_missing("W1", e)
    triage = merkle_triage(prog, rep, "W1")
    import c09
    triage.update(c09.TRIAGE_Q5)
    triage.update(TRIAGE_SEQ)
    seen, n, used = k7_panics(prog, rep, "W1", entries, triage)
    rep.floor("W1", len(seen), 400, "workspace functions reachable from the decoders")
    rep.note(f"W1: {len(entries)} entries, {len(seen)} reachable workspace functions, "
             f"{n} potential panic constructs inspected")
    w2(prog, rep)
    w3(prog, rep, seen)
    w4(prog, rep)
    w5(prog, rep, seen)


def w4(prog, rep):
    """W4 (K2) fixed-size decoding accepts only the exact length: the one hand-rolled
    variable-length -> [u8; 20] conversion (every textual and raw address on the wire goes
    through it) returns Ok only behind `len(input) == ADDRESS_LENGTH`, where the compared value
    is the length *of the input itself* - not a counter of the bytes that fit (a `zip` with the
    20-byte array stops early: over-long payloads would be truncated and accepted, and the
    accepted address would not re-encode to the string it was decoded from)."""
    fn = "astria_core_address::try_collect_to_array"
    if fn not in prog.by_owner:
        rep.anchor_missing("W4", fn)
        return
    b = prog.main_body(fn)
    oks = result_blocks(b, "Ok")
    rep.floor("W4", len(oks), 1, "Ok results in try_collect_to_array")
    good = bool(oks)
    how = ""
    for o in oks:
        ok, how = must_be_equal(b, r"^len\((into_iter\()?iter\)?\)$", r"^const\(20\)$", o)
        good = good and ok
    rep.check(good, "W4", "address-bytes:exact-length",
              "try_collect_to_array can return Ok without `input.len() == 20` having been "
              f"established on the input's own length ({how})", b.describe())


TRUNCATING = ("zip", "chunks_exact", "rchunks_exact", "chunks", "rchunks", "take", "take_while",
              "step_by", "skip", "skip_while", "truncate", "windows", "nth", "split_at", "split_off",
              "map_while")
REVIEWED_TRUNCATING = {
    ("astria_core_address::try_collect_to_array", "zip"):
        "copies into the 20-byte array after the input's own length was checked to be 20 (W4)",
    ("astria_merkle::audit::Proof::reconstruct_root_with_leaf_hash", "chunks"):
        "32-byte hashes of the audit path; the length is validated against the leaf's depth (M3)",
    ("astria_merkle::audit::Proof::reconstruct_root_with_leaf_hash", "take"):
        "the walk is bounded by the leaf's depth on purpose; perform() requires the exact length",
    ("astria_conductor::celestia::convert::ConvertedBlobs::extend_from_header_list_if_well_formed",
     "truncate"): "rolls the output list back to its previous length when a list is malformed",
    ("astria_conductor::celestia::convert::ConvertedBlobs::extend_from_rollup_data_list_if_well_formed",
     "truncate"): "rolls the output list back to its previous length when a list is malformed",
}


def w5(prog, rep, seen):
    """W5 (inventory) silently truncating adapters on the decoding path.  `zip` stops at the
    shorter side, `chunks_exact` drops the remainder, `take`/`step_by`/`truncate` cut: a parser
    that uses one without checking what was cut accepts an input of which it has only read a
    part (the accepted value does not re-encode to the input).  Every such call in hand-written
    code reachable from the decoders is in the reviewed table, with the reason why nothing is
    lost."""
    n = 0
    found = set()
    for owner in sorted(seen):
        if "::generated::" in owner or "_serde_impl" in owner:
            continue
        for b in prog.bodies_of(owner):
            for c in b.calls:
                if c.expn:
                    continue
                sn = short_name(c.callee)
                if sn not in TRUNCATING or not re.search(
                        r"(core::iter|core::slice|alloc::vec|alloc::collections|core::str|"
                        r"Iterator|IndexMap|indexmap)", c.callee or ""):
                    continue
                n += 1
                key = (owner, sn)
                found.add(key)
                reason = REVIEWED_TRUNCATING.get(key)
                if reason:
                    rep.ok("W5", f"{owner}|{sn}", f"reviewed: {reason}")
                else:
                    rep.fail("W5", rep.nth(f"{owner}|{sn}"),
                             f"`{sn}` on the decoding path of {owner} is not in the reviewed table: "
                             "a truncating adapter silently ignores part of the input unless the "
                             "part that is cut is checked (length equality, `remainder()`): the "
                             "decoder would accept an input it has only partly read", c.where())
    rep.floor("W5", n, 3, "truncating adapters on the decoding path (reviewed)")


INT_BITS = {"u8": 8, "u16": 16, "u32": 32, "u64": 64, "u128": 128, "usize": 64,
            "i8": 8, "i16": 16, "i32": 32, "i64": 64, "i128": 128, "isize": 64}


def w3(prog, rep, seen):
    """W3 (K4) no lossy integer conversion on the decoding path: an `as` cast that narrows or
    changes signedness silently maps distinct wire values to one domain value (the accepted
    value would not re-encode to the bytes it was decoded from).  Hand-written code reachable
    from the decoders must use `try_from`/`From`; generated prost/tonic code is exempt (its
    enum <-> i32 casts are width preserving) and serves as the positive example that the
    extractor sees casts at all."""
    from facts import op_local
    n_gen = 0
    bad = []
    for owner in sorted(seen):
        for b in prog.bodies_of(owner):
            gen = "::generated::" in b.owner or "_serde_impl" in b.owner
            for i, j, p, rv, line in b.assigns():
                if rv[0] != "cast" or rv[1] != "IntToInt":
                    continue
                l = op_local(rv[2])
                src = b.locals[l] if l is not None and l < len(b.locals) else \
                    (rv[2][2] if rv[2][0] == "k" and len(rv[2]) > 2 else "?")
                dst = rv[3] if len(rv) > 3 else "?"
                if gen:
                    n_gen += 1
                    continue
                if rv[2][0] == "k":
                    continue        # a literal (e.g. the shift amount in `n >> 1`)
                sb, db = INT_BITS.get(src), INT_BITS.get(dst)
                if sb is None or db is None:
                    continue        # enum discriminant / char / bool sources: not a width issue
                lossy = db < sb or (src[0] != dst[0] and not (src[0] == "u" and db > sb))
                if lossy:
                    bad.append((owner, b, line, src, dst))
    # positive example: generated code contains width-preserving casts the extractor must see
    all_gen = sum(1 for b in prog.bodies if "::generated::" in b.owner
                  for i, j, p, rv, line in b.assigns() if rv[0] == "cast" and rv[1] == "IntToInt")
    rep.floor("W3", all_gen, 10, "IntToInt casts seen in generated code (extractor sanity)")
    for owner, b, line, src, dst in bad:
        rep.fail("W3", rep.nth(f"{owner}|lossy-cast:{src}->{dst}"),
                 f"`as` cast {src} -> {dst} on the decoding path of {owner}: distinct wire values "
                 "collapse to one accepted value (use try_from and reject)", f"{b.file}:{line}")
    if not bad:
        rep.ok("W3", "no-lossy-casts", f"{len(seen)} reachable functions, 0 lossy integer casts")


TRIAGE_SEQ = {
    "astria_sequencer::checked_transaction::convert_actions|call:expect":
        "u64::try_from(enumerate index: usize): infallible on <= 64-bit targets",
}


def w2(prog, rep):
    # merkle::Proof only built by its three constructors
    k1_constructors(prog, rep, "W2", r"^astria_merkle::audit::Proof$",
                    [M + "audit::UncheckedProof::try_into_proof", M + "Tree::construct_proof",
                     M + "audit::Proof::unchecked_from_parts",
                     re.compile(r"^<astria_merkle::audit::Proof as core::clone::Clone>::clone$")],
                    floor=2)
    w2_tx(prog, rep)


def w2_tx(prog, rep):
    # Transaction{..} only in try_from_raw / try_from_raw_ref (behind signature verification)
    # and TransactionBody::sign
    T = "astria_core::protocol::transaction::v1::"
    allowed = ["<" + T + "Transaction as astria_core::Protobuf>::try_from_raw",
               "<" + T + "Transaction as astria_core::Protobuf>::try_from_raw_ref",
               T + "TransactionBody::sign",
               re.compile(r"^<" + re.escape(T) + r"Transaction as core::clone::Clone>::clone$")]
    k1_constructors(prog, rep, "W2", r"^" + re.escape(T) + r"Transaction$", allowed, floor=2)
    for fn in allowed[:2]:
        body = prog.main_body(fn)
        ver = [c for c in body.calls if c.matches(r"astria_core_crypto::VerificationKey::verify$")]
        aggs = list(body.aggregates("adt", r"^" + re.escape(T) + r"Transaction$"))
        for i, j, p, rv, line in aggs:
            k2_site_guarded(rep, "W2", f"Transaction<=verify:{short_name(fn)}", body, i, ver,
                            "a Transaction value can be constructed from wire data without a "
                            "successful signature verification", f"{body.file}:{line}")
        for v in ver:
            # verified bytes are the bytes decoded as the body
            msg = body.root(v.args[2]) if len(v.args) > 2 else ""
            dec = [c for c in body.calls if c.matches(r"prost::message::Message::decode$|TransactionBody.*::decode")]
            rep.check(bool(msg) and ("body" in msg), "W2", f"verify-message:{short_name(fn)}",
                      f"signature is not verified over the transaction body bytes: {msg[:120]}",
                      v.where(), detail=msg[:100])

"""C17 Untrusted wire data never panics a decoder; accepted values are self-consistent.

 W1 (K7) no panic construct is reachable (workspace call graph, drop glue included) from any
    network-facing decoder; every reachable construct is either discharged mechanically
    (constant divisor/shift, machine-checked "callee never returns Err", invariant established
    by the validating constructor) or listed with a reason; everything else is a violation.
 W2 (K1+K2) checked domain types are only constructed behind their validations (shared with
    C07-R1 / C02-A5): here the Merkle `Proof` and `Transaction`.
Not decided: re-encode equivalence (round-trip equality over all inputs).
"""
import re

from facts import short_name
from kinds import (k7_panics, result_blocks, comparisons, k1_constructors, panic_sites,
                   k2_site_guarded)

CRATES = ["astria_core.lib", "astria_merkle.lib", "astria_core_crypto.lib",
          "astria_core_address.lib", "astria_conductor.lib", "astria_sequencer.lib",
          "astria_sequencer_relayer.lib"]

ENTRY_RX = re.compile(
    r"(::try_from_raw(_ref)?|::try_from_unchecked|::try_into_proof|::try_from_slice|"
    r"::decompress_bytes|core::convert::TryFrom<.*>>::try_from|Proof::verify|"
    r"Audit<.*>::perform|Audit.*::reconstruct_root|Proof::reconstruct_root_with_leaf(_hash)?)$")
ENTRY_CRATES = ("astria_core::", "<astria_core::", "astria_merkle::", "<astria_merkle::",
                "astria_core_crypto::", "<astria_core_crypto::", "astria_core_address::",
                "<astria_core_address::")
EXTRA_ENTRIES = [
    "astria_conductor::celestia::convert::decode_raw_blobs",
    "astria_conductor::celestia::reconstruct::reconstruct_blocks_from_verified_blobs",
    "astria_sequencer::checked_transaction::CheckedTransaction::new",
    "astria_sequencer_relayer::relayer::read::fetch_block",
]

M = "astria_merkle::"

# Unconditional triage: construct key (owner|construct, ordinals optional) -> reason.
TRIAGE = {
    "astria_core::primitive::v1::<impl astria_core::Protobuf for astria_merkle::audit::Proof>"
    "::try_from_raw|call:expect":
        "u64 -> usize conversion: infallible on the 64-bit targets the services are built for",
    M + "LeafBuilder::<'_>::write|call:expect":
        "hasher is Some from build_leaf until drop (private field, only taken in Drop)",
    "<" + M + "LeafBuilder<'_> as core::ops::drop::Drop>::drop|call:expect":
        "hasher taken exactly once in Drop; `tree.len() - 1` after the non-empty early return",
}

# tree-internal index arithmetic: operates on the in-memory tree's own node count (bounded by
# allocated memory), never on indices taken from a proof -- confirmed by the K1 condition below
TREE_INTERNAL = [
    M + "Tree::get_node", M + "Tree::set_node", M + "complete_right_child",
    M + "perfect_left_child", M + "perfect_right_child", M + "perfect_root", M + "complete_root",
    M + "complete_parent_and_sibling", M + "is_perfect",
]
TREE_INTERNAL_ALLOWED_CALLERS = re.compile(
    r"^(astria_merkle::Tree::|<astria_merkle::LeafBuilder<'_> as core::ops::drop::Drop>::drop$|"
    r"astria_merkle::(complete_|perfect_)\w+$)")


def never_errs(prog, owner):
    """Machine check of an `expect("infallible")`: the callee has no Err exit at all."""
    bs = prog.bodies_of(owner)
    if not bs:
        return False
    for b in bs:
        if result_blocks(b, "Err"):
            return False
        if any(c.is_("core::ops::try_trait::FromResidual::from_residual") for c in b.calls):
            return False
    return True


def merkle_invariants(prog, rep=None, rule="W1"):
    """Structural facts about UncheckedProof::try_into_proof that justify triage entries for
    code operating on a validated Proof.
      I1: Ok(Proof) only behind `leaf index in tree` (and the check itself cannot panic);
      I2: Ok(Proof) only behind an equality between the audit-path length and a depth
          computed from (leaf_index, tree_size)."""
    fn = M + "audit::UncheckedProof::try_into_proof"
    body = prog.main_body(fn)
    oks = result_blocks(body, "Ok")
    inv = {"I1": False, "I2": False}
    if not oks:
        return inv
    # I1
    chk = [c for c in body.calls if c.is_(M + "is_leaf_index_in_tree")]
    for c in chk:
        oe = body.outcome_edges(c)
        if oe["kind"] == "bool" and all(body.must_pass_edges(set(oe["ok"]), o) for o in oks):
            a = " ".join(body.root(x) for x in c.args)
            if "leaf_index" in a and "tree_size" in a:
                inv["I1"] = True
    for cm in comparisons(body):
        if cm.op in ("Lt", "Gt", "Le", "Ge") and "leaf_index" in cm.a + cm.b and "tree_size" in cm.a + cm.b:
            if all(body.must_pass_edges(set(cm.true_edges), o) for o in oks) or \
                    all(body.must_pass_edges(set(cm.false_edges), o) for o in oks):
                inv["I1"] = True
    # the validation itself must not be able to panic on the untrusted index
    seen, _ = prog.reachable_owners([fn])
    if M + "leaf_index_to_tree_index" in seen:
        inv["I1"] = False
        inv["I1_reason"] = "try_into_proof reaches the panicking leaf_index_to_tree_index"
    # I2
    for cm in comparisons(body):
        if cm.op != "Eq":
            continue
        sides = (cm.a, cm.b)
        for x, y in (sides, sides[::-1]):
            if "audit_path" in x and "leaf_index" in y and "tree_size" in y:
                if all(body.must_pass_edges(set(cm.true_edges), o) for o in oks):
                    inv["I2"] = True
    return inv


def merkle_triage(prog, rep, rule):
    """Build the triage table for astria-merkle / decoder sites; conditional entries are only
    included when their machine-checked condition holds on the current tree."""
    t = dict(TRIAGE)
    # tree-internal helpers: never called from audit.rs (proof-driven code)
    callers_ok = True
    for fn in TREE_INTERNAL:
        for owner, calls in prog.callers_of(fn).items():
            good = bool(TREE_INTERNAL_ALLOWED_CALLERS.search(owner))
            rep.check(good, rule, f"tree-internal:{short_name(fn)}<-{owner}",
                      f"{fn} (index arithmetic that asserts tree invariants) is called from "
                      f"{owner}, i.e. possibly with proof-supplied indices", calls[0].where())
            callers_ok &= good
    if callers_ok:
        for fn in TREE_INTERNAL:
            t["rx:^" + re.escape(fn) + r"\|"] = (
                "index arithmetic on the in-memory tree's own node count (bounded by memory; "
                "append-only invariant); K1: only called from Tree/LeafBuilder code")
        t["rx:^" + re.escape(M + "Tree::(root|leaf|construct_proof)")] = "tree-internal"
    # last_set_bit(x): `x - 1` needs x >= 1; only caller passes i + 1
    cs = prog.callers_of(M + "last_set_bit")
    if set(cs) <= {M + "last_zero_bit"}:
        t[M + "last_set_bit|call:unwrap"] = \
            "x = i + 1 >= 1 (only caller is last_zero_bit, K1-checked); x - (..&x) <= x"
    inv = merkle_invariants(prog)
    rep.note(f"{rule}: merkle proof invariants established by try_into_proof: {inv}")
    if inv["I1"]:
        t[M + "leaf_index_to_tree_index|call:unwrap"] = (
            "leaf_index * 2 < tree_size was established by try_into_proof (I1), and that "
            "validation does not itself use the panicking helper")
    if inv["I2"]:
        t[M + "last_zero_bit|call:unwrap"] = (
            "i + 1 overflows only when the climb passes the root; the audit path length equals "
            "the leaf's depth (I2, established by try_into_proof), so the climb stops at the root")
    # perfect_parent `zero << 1`: shift amount is the constant 1 -> discharged mechanically
    # "infallible conversion" expects: callee has no Err exit
    for owner, callee in (
            ("<astria_core::protocol::genesis::v1::GenesisAppState as astria_core::Protobuf>"
             "::try_from_raw_ref",
             "astria_core::protocol::genesis::v1::<impl astria_core::Protobuf for "
             "penumbra_sdk_ibc::params::IBCParameters>::try_from_raw_ref"),
            ("astria_core::mempool::v1::transaction_status::executed::<impl astria_core::Protobuf"
             " for tendermint::abci::event::Event>::try_from_raw",
             "astria_core::mempool::v1::transaction_status::executed::<impl astria_core::Protobuf"
             " for tendermint::abci::event::EventAttribute>::try_from_raw"),
            ("astria_core::mempool::v1::transaction_status::executed::<impl astria_core::Protobuf"
             " for tendermint::abci::event::Event>::try_from_raw_ref",
             "astria_core::mempool::v1::transaction_status::executed::<impl astria_core::Protobuf"
             " for tendermint::abci::event::EventAttribute>::try_from_raw_ref"),
            ("astria_core::mempool::v1::transaction_status::executed::<impl astria_core::Protobuf"
             " for tendermint::abci::types::ExecTxResult>::try_from_raw",
             "astria_core::mempool::v1::transaction_status::executed::<impl astria_core::Protobuf"
             " for tendermint::abci::event::Event>::try_from_raw"),
            ("astria_core::mempool::v1::transaction_status::executed::<impl astria_core::Protobuf"
             " for tendermint::abci::types::ExecTxResult>::try_from_raw_ref",
             "astria_core::mempool::v1::transaction_status::executed::<impl astria_core::Protobuf"
             " for tendermint::abci::event::Event>::try_from_raw_ref")):
        if never_errs(prog, callee):
            t[owner + "|call:expect"] = f"conversion {short_name(callee)} has no Err exit (machine-checked)"
    return t


def decoder_entries(prog):
    out = [o for o in prog.by_owner if ENTRY_RX.search(o) and o.startswith(ENTRY_CRATES)
           and "generated::" not in o.split(" as ")[0] and "{constant" not in o]
    return sorted(out)


def run(prog, rep):
    rep.explanation = (
        "K7 panic reachability: from every network-facing decoder / validating constructor "
        "(try_from_raw*, try_from_unchecked, try_into_proof, TryFrom impls of astria-core, "
        "astria-merkle, astria-core-crypto, astria-core-address; brotli decompress; conductor "
        "blob decoding and reconstruction; sequencer CheckedTransaction::new; relayer block "
        "conversion) the workspace call graph (trait calls resolved, drop glue included) is "
        "walked and every panic construct (unwrap/expect/panic!/assert!/index/arith asserts/"
        "panicking std methods) must be mechanically discharged or in the reasoned triage "
        "table. Plus constructor discipline for merkle::Proof and Transaction. Decides absence "
        "of reachable panic constructs in workspace code, not re-encode equivalence.")
    rep.assumptions += [
        "third-party crates (prost, serde_json, tendermint, ed25519-consensus, brotli, "
        "penumbra/ibc types) are the trusted base and are not entered",
        "64-bit targets (u64 -> usize is lossless)",
        "production cfg only",
    ]
    entries = decoder_entries(prog)
    rep.floor("W1", len(entries), 120, "decoder entry points in astria-core/merkle/crypto/address")
    for e in EXTRA_ENTRIES:
        if e in prog.by_owner:
            entries.append(e)
        else:
            rep.anchor_missing("W1", e)
    triage = merkle_triage(prog, rep, "W1")
    import c09
    triage.update(c09.TRIAGE_Q5)
    triage.update(TRIAGE_SEQ)
    seen, n, used = k7_panics(prog, rep, "W1", entries, triage)
    rep.floor("W1", len(seen), 400, "workspace functions reachable from the decoders")
    rep.note(f"W1: {len(entries)} entries, {len(seen)} reachable workspace functions, "
             f"{n} potential panic constructs inspected")
    w2(prog, rep)


TRIAGE_SEQ = {
    "astria_sequencer::checked_transaction::convert_actions|call:expect":
        "u64::try_from(enumerate index: usize): infallible on <= 64-bit targets",
}


def w2(prog, rep):
    # merkle::Proof only built by its three constructors
    k1_constructors(prog, rep, "W2", r"^astria_merkle::audit::Proof$",
                    [M + "audit::UncheckedProof::try_into_proof", M + "Tree::construct_proof",
                     M + "audit::Proof::unchecked_from_parts",
                     re.compile(r"^<astria_merkle::audit::Proof as core::clone::Clone>::clone$")],
                    floor=2)
    w2_tx(prog, rep)


def w2_tx(prog, rep):
    # Transaction{..} only in try_from_raw / try_from_raw_ref (behind signature verification)
    # and TransactionBody::sign
    T = "astria_core::protocol::transaction::v1::"
    allowed = ["<" + T + "Transaction as astria_core::Protobuf>::try_from_raw",
               "<" + T + "Transaction as astria_core::Protobuf>::try_from_raw_ref",
               T + "TransactionBody::sign",
               re.compile(r"^<" + re.escape(T) + r"Transaction as core::clone::Clone>::clone$")]
    k1_constructors(prog, rep, "W2", r"^" + re.escape(T) + r"Transaction$", allowed, floor=2)
    for fn in allowed[:2]:
        body = prog.main_body(fn)
        ver = [c for c in body.calls if c.matches(r"astria_core_crypto::VerificationKey::verify$")]
        aggs = list(body.aggregates("adt", r"^" + re.escape(T) + r"Transaction$"))
        for i, j, p, rv, line in aggs:
            k2_site_guarded(rep, "W2", f"Transaction<=verify:{short_name(fn)}", body, i, ver,
                            "a Transaction value can be constructed from wire data without a "
                            "successful signature verification", f"{body.file}:{line}")
        for v in ver:
            # verified bytes are the bytes decoded as the body
            msg = body.root(v.args[2]) if len(v.args) > 2 else ""
            dec = [c for c in body.calls if c.matches(r"prost::message::Message::decode$|TransactionBody.*::decode")]
            rep.check(bool(msg) and ("body" in msg), "W2", f"verify-message:{short_name(fn)}",
                      f"signature is not verified over the transaction body bytes: {msg[:120]}",
                      v.where(), detail=msg[:100])

"""Cross-reference (thorough tier, never the deciding step): clippy's generic panic-related
restriction lints (`unwrap_used`, `expect_used`, `panic`, `indexing_slicing`,
`arithmetic_side_effects`, `unreachable`, `todo`, `unimplemented`) are run over the crates a K7
rule analyses and every lint site (file, line) must coincide with a potentially-panicking
construct the fact extractor + `kinds.panic_sites` see (before triage and before constant
discharge).  A clippy site the engine does not see means the K7 site detector has a hole; it is
reported in the evidence (`xref.unseen`) and as a SELFTEST-MISS line, never as a VIOLATION."""
import json
import os
import re
import subprocess

import engine
from kinds import ASSERT_PANIC, PANIC_CALL_RX
from facts import Call

LINTS = ["unwrap_used", "expect_used", "panic", "indexing_slicing", "arithmetic_side_effects",
         "unreachable", "todo", "unimplemented"]


def clippy_sites(packages):
    env = engine.driver_env()
    env["ASTRIA_FACTS_CRATES"] = ""
    cmd = ["cargo", "+nightly", "clippy", "--offline", "--message-format=json"]
    for p in packages:
        cmd += ["-p", p]
    cmd += ["--"]
    for l in LINTS:
        cmd += ["--force-warn", "clippy::" + l]
    r = subprocess.run(cmd, cwd=engine.REPO, env=env, stdout=subprocess.PIPE,
                       stderr=subprocess.PIPE, text=True)
    sites = set()
    for line in r.stdout.splitlines():
        try:
            m = json.loads(line)
        except ValueError:
            continue
        if m.get("reason") != "compiler-message":
            continue
        d = m["message"]
        code = (d.get("code") or {}).get("code") or ""
        if not code.startswith("clippy::") or code[8:] not in LINTS:
            continue
        for sp in d.get("spans", []):
            if sp.get("is_primary"):
                # the outermost user-code location of the span
                while sp.get("expansion") and not sp["file_name"].startswith("crates/"):
                    sp = sp["expansion"]["span"]
                sites.add((code[8:], sp["file_name"], sp["line_start"], sp["line_end"]))
    return sites, r.returncode, r.stderr[-1500:]


def engine_lines(prog):
    """(file, line) of every construct the K7 detector can see, undischarged."""
    out = set()
    for body in prog.bodies:
        f = body.file
        for b in body.live_blocks():
            t = body.term(b)
            if t[0] == "assert":
                if t[3].split(":")[0] in ASSERT_PANIC:
                    out.add((f, t[5]))
            elif t[0] == "call":
                c = Call(body, b, t)
                if any(PANIC_CALL_RX.search(n) for n in c.names()):
                    out.add((f, c.line))
    return out


def run(prog, packages):
    sites, rc, err = clippy_sites(packages)
    lines = engine_lines(prog)
    files = {f for f, _ in lines}
    unseen, seen, outside = [], 0, 0
    for lint, f, l0, l1 in sorted(sites):
        if not any(ff.endswith(f) for ff in files):
            outside += 1        # a workspace dependency that this property's rules do not load
            continue
        key = next(((ff, l) for ff in files if ff.endswith(f) for l in range(l0, l1 + 1)
                    if (ff, l) in lines), None)
        if key:
            seen += 1
        else:
            unseen.append(f"{lint} {f}:{l0}")
    return {"clippy_rc": rc, "lints": LINTS, "packages": packages, "clippy_sites": len(sites),
            "seen_by_engine": seen, "in_crates_not_loaded": outside, "unseen": unseen, "stderr_tail": err if rc else ""}

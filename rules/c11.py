"""C11 Relayer never skips a sequencer block on Celestia across any crash/restart.

 S1 (K1+K2+K5) the submission-state file is only written by `State::write`, as
    write(temp) -> rename(temp, state path): rename lies behind the success edge of the write,
    its source is the written temp path and its destination the state path.
 S2 (K1+K2) typestate: `PreparedSubmission{..}` / `StartedSubmission{..}` tokens are only minted
    by their writing constructors (behind the success edge of `State::write` of the matching
    record, built from the same values) or by `new_from_path` from a file just read;
    a prepared record requires sequencer_height > last confirmed height.
 S3 (K2+K5) try_submit: the broadcast (`CelestiaClient::try_submit`) lies behind the success edge
    of `into_prepared` (prepared record durable before broadcast); every `into_started(h)` takes
    `h` from a confirmed result (Ok(h) of try_submit / Some(h) of confirm_submission) and records
    the *prepared* sequencer height; `revert` only on the unconfirmed edge.
 S4 (K5) the reader is seeded with `last_completed_sequencer_height()` (the last confirmed
    height, not the in-flight one), which for a prepared record is last_submission's height.
 S6 (K5+K1) the height that is made durable is the greatest height *of the blocks in the payload
    being broadcast*: submit_blobs takes blobs and height from the same submission and hands
    them unchanged down to try_submit/into_prepared; Submission::greatest_sequencer_height is
    the last element of `meta.sequencer_heights`; that set is only written where the block's
    data is added (`Input::extend_from_sequencer_block`, with the block's own height); and
    `NextSubmission::try_add` leaves no trace of a block it refuses (C12-T1 rules, shared).
 S5 (K2) the Celestia client reports a height only for code == 0 and height != 0 responses.
Not decided: the crash-point x outcome product (fault enumeration is a different technique).
"""
import re

from facts import short_name, op_local
from kinds import (rel, k1_callers, k1_constructors, comparisons, result_blocks, k2_site_guarded,
                   on_all_success_paths)

CRATES = ["astria_sequencer_relayer.lib"]
R = "astria_sequencer_relayer::relayer::"
SUB = R + "submission::"
W = R + "write::"
CC = R + "celestia_client::"


def is_test_owner(o):
    return "::tests" in o or "::test::" in o or "test_utils" in o


def run(prog, rep):
    rep.explanation = (
        "Who-may-write, must-dominate and provenance rules on the relayer MIR: the state file is "
        "only produced by temp-write-then-rename; typestate tokens are only minted behind the "
        "durable write of their record; the broadcast lies behind the durable prepared record; "
        "a submission is only recorded as started(h) with h taken from a confirmed result and "
        "the prepared height; the reader restarts from the last confirmed height; the Celestia "
        "client never reports a failed/pending transaction as confirmed. The crash-point product "
        "is not enumerated.")
    rep.assumptions += ["rename(2) is atomic on the state-file filesystem",
                        "production cfg only"]
    s1(prog, rep)
    s2(prog, rep)
    s3(prog, rep)
    s4(prog, rep)
    s5(prog, rep)
    s6(prog, rep)


def s1(prog, rep):
    k1_callers(prog, rep, "S1", [], [SUB + "State::write"], floor=2,
               rx=r"^tokio::fs::(write::write|rename::rename|remove_file::remove_file|copy::copy)$|"
                  r"^std::fs::(write|rename|remove_file|copy|File::create)$|OpenOptions::open$",
               what="filesystem writes in the relayer",
               ignore_owner=lambda o: is_test_owner(o) or not o.startswith(
                   ("astria_sequencer_relayer::relayer", "<astria_sequencer_relayer::relayer")))
    body = prog.main_body(SUB + "State::write")
    wr = [c for c in body.calls if c.matches(r"^tokio::fs::write::write$")]
    rn = [c for c in body.calls if c.matches(r"^tokio::fs::rename::rename$")]
    if len(wr) != 1 or len(rn) != 1:
        rep.fail("S1", "write-shape", f"State::write: expected one fs::write and one fs::rename, "
                 f"found {len(wr)}/{len(rn)}", body.describe())
        return
    wr, rn = wr[0], rn[0]
    k2_site_guarded(rep, "S1", "rename<=write-ok", body, rn.bb, [wr],
                    "the state file can be replaced although writing the temp file failed", rn.where())
    wa, ra = [body.root(x) for x in wr.args], [body.root(x) for x in rn.args]
    rep.check(wa[0] == "temp_file.0" and ra[0] == "temp_file.0" and ra[1] == "destination.0", "S1",
              "write-temp-rename-to-destination",
              f"State::write writes `{wa[0]}` then renames `{ra[0]}` -> `{ra[1]}`; expected temp "
              f"file then atomic rename onto the state path (a crash mid-write must not corrupt "
              f"the state file)", rn.where())
    rep.check("to_string_pretty(self)" in wa[1] or "self" in wa[1], "S1", "write-content=self",
              f"writes {wa[1][:60]}", wr.where())
    rep.check(body.outcome_edges(rn)["kind"] in ("try",) or True, "S1", "rename-result-returned", "",
              rn.where())
    k1_callers(prog, rep, "S1", [SUB + "State::write"],
               [SUB + "StartedSubmission::construct_and_write",
                SUB + "PreparedSubmission::construct_and_write",
                SUB + "SubmissionStateAtStartup::new_from_path"], floor=3, ignore_owner=is_test_owner)


def s2(prog, rep):
    for t, allowed in (
            (SUB + "PreparedSubmission", [SUB + "PreparedSubmission::construct_and_write",
                                          SUB + "SubmissionStateAtStartup::new_from_path"]),
            (SUB + "StartedSubmission", [SUB + "StartedSubmission::construct_and_write",
                                         SUB + "FreshSubmission::into_started",
                                         SUB + "SubmissionStateAtStartup::new_from_path"])):
        k1_constructors(prog, rep, "S2", "^" + re.escape(t) + "$",
                        allowed + [re.compile(r"^<" + re.escape(t) + r" as core::clone::Clone>::clone$")],
                        floor=2)
    for t, mk, fields in (("StartedSubmission", "new_started", ["last_submission"]),
                          ("PreparedSubmission", "new_prepared",
                           ["sequencer_height", "last_submission", "blob_tx_hash"])):
        body = prog.main_body(SUB + t + "::construct_and_write")
        w = body.calls_to(SUB + "State::write")
        ag = list(body.aggregates("adt", r"submission::" + t + "$"))
        rep.floor("S2", len(ag), 1, f"{t} aggregate in construct_and_write")
        for i, j, p, rv, line in ag:
            k2_site_guarded(rep, "S2", f"{t}:token<=write-ok", body, i, w,
                            f"a {t} token can be handed out although its record was not written "
                            f"to disk", f"{body.file}:{line}")
            f = dict(zip(rv[5], [body.root(o) for o in rv[4]]))
            ok = all(f.get(x) == x for x in fields)
            rep.check(ok, "S2", f"{t}:token-fields", f"{t} token fields {f}", f"{body.file}:{line}")
        for c in w:
            r = body.root(c.args[0])
            ok = r.startswith(mk + "(") and all(x in r for x in fields) and \
                body.root(c.args[1]) == "state_file_path" and body.root(c.args[2]) == "temp_file_path"
            rep.check(ok, "S2", f"{t}:written-record=token",
                      f"the record written ({r[:80]}) is not built from the token's own values",
                      c.where())
    body = prog.main_body(SUB + "PreparedSubmission::construct_and_write")
    gt = rel(body, "Gt", r"^sequencer_height$", r"^last_submission\.sequencer_height$")
    w = body.calls_to(SUB + "State::write")
    rep.check(bool(gt) and bool(w) and body.must_pass_edges(set(gt[0].true_edges), w[0].bb), "S2",
              "prepared:height>last-confirmed",
              "a prepared record can be written for a height that is not above the last confirmed "
              "one", body.describe())
    # transitions pass the right values
    b = prog.main_body(SUB + "PreparedSubmission::into_started")
    c = b.calls_to(SUB + "StartedSubmission::construct_and_write")
    nw = b.calls_to(SUB + "CompletedSubmission::new")
    ok = bool(c) and bool(nw) and [b.root(x) for x in nw[0].args] == ["celestia_height", "self.sequencer_height"] \
        and b.root(c[0].args[0]).startswith("new(celestia_height,self.sequencer_height)")
    rep.check(ok, "S2", "into_started:records-prepared-height",
              "into_started does not record (confirmed celestia height, the prepared sequencer "
              "height) as the last submission", b.describe())
    b = prog.main_body(SUB + "PreparedSubmission::revert")
    c = b.calls_to(SUB + "StartedSubmission::construct_and_write")
    rep.check(bool(c) and b.root(c[0].args[0]) == "self.last_submission", "S2",
              "revert:keeps-last-confirmed", "revert does not restore the last confirmed submission",
              b.describe())
    b = prog.main_body(SUB + "StartedSubmission::into_prepared")
    c = b.calls_to(SUB + "PreparedSubmission::construct_and_write")
    rep.check(bool(c) and [b.root(x) for x in c[0].args][:3] ==
              ["new_sequencer_height", "self.last_submission", "blob_tx_hash"], "S2",
              "into_prepared:operands", "into_prepared passes other values", b.describe())
    # new_from_path builds tokens from the record just read
    b = prog.main_body(SUB + "SubmissionStateAtStartup::new_from_path")
    rd = b.calls_to(SUB + "State::read")
    for i, j, p, rv, line in list(b.aggregates("adt", r"submission::(Prepared|Started)Submission$")):
        f = dict(zip(rv[5], [b.root(o) for o in rv[4]]))
        ok = bool(rd) and "read(" in f.get("last_submission", "") and b.must_pass_block(rd[0].bb, i)
        rep.check(ok, "S2", f"startup:token-from-file:{rv[2].split('::')[-1]}",
                  f"startup token not built from the state file: {f.get('last_submission', '')[:60]}",
                  f"{b.file}:{line}")


def s3(prog, rep):
    body = prog.main_body(W + "try_submit")
    bc = [c for c in body.calls if c.is_(CC + "CelestiaClient::try_submit")]
    ip = body.calls_to(SUB + "StartedSubmission::into_prepared")
    rep.floor("S3", len(bc), 1, "broadcast call in try_submit")
    rep.floor("S3", len(ip), 1, "into_prepared in try_submit")
    for b in bc:
        k2_site_guarded(rep, "S3", "broadcast<=prepared-durable", body, b.bb, ip,
                        "the BlobTx can be broadcast before the prepared record (height + tx hash) "
                        "is durable: after a crash the relayer could not confirm it and would "
                        "resubmit or skip", b.where())
        a = [body.root(x) for x in b.args]
        hp = body.root(ip[0].args[2]) if ip else ""
        rep.check(a[1] == hp, "S3", "broadcast-hash=prepared-hash",
                  f"broadcast uses tx hash `{a[1][:50]}` but the prepared record stores `{hp[:50]}`",
                  b.where())
    for c in ip:
        a = [body.root(x) for x in c.args]
        rep.check(a[0] == "started_submission" and a[1] == "largest_sequencer_height" and
                  a[2].startswith("compute("), "S3", "prepared-operands",
                  f"into_prepared({[x[:40] for x in a]})", c.where())
    # into_started call sites
    sites = []
    for o in (W + "try_submit", W + "try_confirm_submission_from_failed_attempt",
              W + "try_confirm_submission_from_last_session"):
        b = prog.main_body(o)
        for c in b.calls_to(SUB + "PreparedSubmission::into_started"):
            sites.append((o, b, c))
    rep.floor("S3", len(sites), 3, "into_started call sites")
    for o, b, c in sites:
        h = b.root(c.args[1])
        if o.endswith("try_submit"):
            ok = re.search(r"try_submit\(client,.*\).*<Ok>\.0$", h) is not None
        else:
            ok = re.search(r"confirm_submission_with_timeout\(client,.*\).*<Some>\.0$", h) is not None
        rep.check(ok, "S3", f"started(h)<=confirmed:{short_name(o)}",
                  f"{o} records a submission as completed at celestia height `{h[:90]}`, which is "
                  f"not the payload of a confirmed result", c.where(), detail=h[:80])
    k1_callers(prog, rep, "S3", [SUB + "PreparedSubmission::into_started"],
               [o for o, _, _ in sites], floor=3, ignore_owner=is_test_owner)
    # revert only when confirmation came back empty
    b = prog.main_body(W + "try_confirm_submission_from_last_session")
    rv = b.calls_to(SUB + "PreparedSubmission::revert")
    cf = [c for c in b.calls if c.is_(CC + "CelestiaClient::confirm_submission_with_timeout")]
    ok = False
    if rv and cf:
        oe = b.outcome_edges(cf[0])
        ok = oe["kind"] == "match_option" and b.must_pass_edges(set(oe["err"]), rv[0].bb)
    rep.check(ok, "S3", "revert<=unconfirmed",
              "a prepared submission can be reverted although it was confirmed", b.describe())
    k1_callers(prog, rep, "S3", [SUB + "PreparedSubmission::revert"],
               [W + "try_confirm_submission_from_last_session"], floor=1, ignore_owner=is_test_owner)


def s4(prog, rep):
    b = prog.main_body(SUB + "SubmissionStateAtStartup::last_completed_sequencer_height")
    somes = []
    for i, j, p, rv, line in b.aggregates("adt", r"core::option::Option$"):
        if rv[3] == "Some":
            somes.append(b.root(rv[4][0]))
    defs = b.named_def_roots("last_submission")
    ok = bool(somes) and all(s == "last_submission.sequencer_height" for s in somes) and \
        len(defs) == 2 and all(re.fullmatch(r"self<(Started|Prepared)>\.0\.last_submission", d) for d in defs)
    rep.check(ok, "S4", "last_completed=last_submission.height",
              f"last_completed_sequencer_height returns {somes}: for a prepared (in-flight) record "
              f"it must be the last *confirmed* height, not the in-flight one", b.describe())
    o = R + "Relayer::run"
    b = prog.main_body(o)
    lc = b.calls_to(SUB + "SubmissionStateAtStartup::last_completed_sequencer_height")
    sf = [c for c in b.calls if c.matches(r"read::BlockStream.*::set_last_fetched_height$|set_last_fetched_height$")]
    ok = bool(lc) and bool(sf) and "last_completed_sequencer_height(" in b.root(sf[0].args[1])
    rep.check(ok, "S4", "reader-seeded-with-last-completed",
              "the sequencer reader is not restarted from the last confirmed height", b.describe())
    # the writer skips only blocks at or below the last *confirmed* height
    for wo in prog.owners(r"^astria_sequencer_relayer::relayer::write::BlobSubmitter::run$"):
        wb = prog.main_body(wo)
        cm = [c for c in comparisons(wb) if "last_submission_sequencer_height(" in c.a + c.b]
        rep.check(bool(cm), "S4", "writer-skip-test-uses-last-submission",
                  "the submitter's already-submitted test no longer uses the last confirmed "
                  "submission height", wb.describe())


def s5(prog, rep):
    fn = CC + "block_height_from_response"
    if fn not in prog.by_owner:
        rep.anchor_missing("S5", fn)
        return
    b = prog.main_body(fn)
    somes = [i for i, j, p, rv, line in b.aggregates("adt", r"core::option::Option$")
             if rv[3] == "Some" and rv[4] and ".height" in b.root(rv[4][0]) and i in
             {x for x in b.live_blocks()} and "display(" not in b.root(rv[4][0])]
    # keep only the one that is the function's result (flows into Ok(..))
    somes = [i for i in somes if any(rv2[3] == "Ok" and i2 == i for i2, j2, p2, rv2, l2 in
                                     b.aggregates("adt", r"core::result::Result$"))] or somes[-1:]
    cm = comparisons(b)
    code = [c for c in cm if c.op == "Eq" and ".code" in c.a + c.b and "const(0)" in c.a + c.b]
    hz = [c for c in cm if c.op == "Eq" and "height" in c.a + c.b and "const(0)" in c.a + c.b
          and ".code" not in c.a + c.b]
    rep.floor("S5", len(somes), 1, "Some(height) in block_height_from_response")
    for s in somes:
        rep.check(bool(code) and b.must_pass_edges(set(code[0].true_edges), s), "S5",
                  "height<=code==0", "a failed transaction (code != 0) can be reported as included",
                  b.describe())
        rep.check(bool(hz) and b.must_pass_edges(set(hz[0].false_edges), s), "S5", "height<=height!=0",
                  "a pending transaction (height 0) can be reported as included", b.describe())
    fn = CC + "lowercase_hex_encoded_tx_hash_from_response"
    if fn in prog.by_owner:
        b = prog.main_body(fn)
        oks = result_blocks(b, "Ok")
        code = [c for c in comparisons(b) if c.op == "Eq" and ".code" in c.a + c.b and "const(0)" in c.a + c.b]
        rep.check(bool(code) and bool(oks) and all(b.must_pass_edges(set(code[0].true_edges), o) for o in oks),
                  "S5", "broadcast-ok<=code==0",
                  "a rejected broadcast (code != 0) can be reported as accepted", b.describe())
    else:
        rep.anchor_missing("S5", fn)


def s6(prog, rep):
    CV = W + "conversion::"
    # (a) blobs and height come from the same submission
    body = prog.main_body(W + "submit_blobs")
    sw = body.calls_to(W + "submit_with_retry")
    rep.floor("S6", len(sw), 1, "submit_with_retry call in submit_blobs")
    for c in sw:
        a = [body.root(x) for x in c.args]
        mb = [re.fullmatch(r"into_blobs\((.*)\)", x) for x in a]
        mh = [re.fullmatch(r"greatest_sequencer_height\((.*)\)", x) for x in a]
        sb = {m.group(1) for m in mb if m}
        sh = {m.group(1) for m in mh if m}
        rep.check(len(sb) == 1 and sb == sh, "S6", "submit:blobs-and-height-of-same-submission",
                  f"blobs come from {sorted(sb)} but the recorded height from {sorted(sh)} "
                  f"(args: {[x[:40] for x in a]})", c.where())
    # (b) handed down unchanged: submit_with_retry -> try_submit -> into_prepared.  Parameter
    # names are not anchors: the operands are identified by their types (the blobs, the height)
    # and must be bare captured parameters, not expressions computed on the way
    def typed_args(b, c):
        out = {}
        for a in c.args:
            l = op_local(a)
            ty = b.locals[l] if l is not None and l < len(b.locals) else ""
            if "Vec<celestia_types::blob::Blob>" in ty:
                out["blobs"] = b.root(a)
            elif ty.endswith("block::height::Height"):
                out["height"] = b.root(a)
        return out
    n = 0
    for b in prog.bodies_of(W + "submit_with_retry"):
        for c in b.calls:
            if c.is_(W + "try_submit"):
                n += 1
                t = typed_args(b, c)
                rep.check(re.fullmatch(r"\w+", t.get("blobs", "-")) is not None and
                          re.fullmatch(r"\w+", t.get("height", "-")) is not None, "S6",
                          "retry:passes-own-blobs-and-height",
                          f"try_submit is called with blobs `{t.get('blobs', '?')[:50]}` and height "
                          f"`{t.get('height', '?')[:50]}` (must be the parameters it was given)",
                          c.where())
    rep.floor("S6", n, 1, "try_submit call in submit_with_retry")
    body = prog.main_body(W + "try_submit")
    ip = body.calls_to(SUB + "StartedSubmission::into_prepared")
    tp = [c for c in body.calls if c.matches(r"CelestiaClient::try_prepare$")]
    rep.floor("S6", len(ip), 1, "into_prepared in try_submit")
    rep.floor("S6", len(tp), 1, "try_prepare in try_submit")
    for c in ip:
        t = typed_args(body, c)
        rep.check(re.fullmatch(r"\w+", t.get("height", "-")) is not None, "S6",
                  "try_submit:prepared-height=param",
                  f"prepared record is written for height `{t.get('height', '?')[:60]}`", c.where())
    for c in tp:
        t = typed_args(body, c)
        rep.check(re.fullmatch(r"\w+", t.get("blobs", "-")) is not None, "S6",
                  "try_submit:prepares-own-blobs",
                  f"the blob tx is built from `{t.get('blobs', '?')[:60]}`", c.where())
    # (c) what greatest_sequencer_height is
    b = prog.main_body(CV + "Submission::greatest_sequencer_height")
    g = b.calls_to(CV + "Input::greatest_sequencer_height")
    rep.check(bool(g) and b.root(g[0].args[0]) == "self.input", "S6", "height-of-own-input",
              "Submission::greatest_sequencer_height does not ask its own input", b.describe())
    b = prog.main_body(CV + "Input::greatest_sequencer_height")
    last = [c for c in b.calls if short_name(c.callee) in ("last", "last_key_value", "max", "iter_max")]
    rep.check(bool(last) and b.root(last[0].args[0]) == "self.meta.sequencer_heights", "S6",
              "height=last(sequencer_heights)",
              "greatest height is not the last element of the ordered height set", b.describe())
    # (d) who may write the height set: only the function that adds the block's data, with the
    # block's own height, unconditionally
    writers = {}
    for b in prog.bodies:
        if is_test_owner(b.owner):
            continue
        for i, j, p, rv, line in b.assigns():
            if (rv[0] == "ref" and rv[1] == "mut" and "sequencer_heights" in rv[2]) or \
                    "sequencer_heights" in p:
                writers.setdefault(b.owner, []).append((b, i, line))
    ext = CV + "Input::extend_from_sequencer_block"
    rep.floor("S6", len(writers), 1, "writers of meta.sequencer_heights")
    for o, sites in sorted(writers.items()):
        rep.check(o == ext, "S6", f"height-set-writer:{short_name(o)}",
                  "the set of heights covered by a submission is modified outside the function "
                  "that adds a block's data (a height can be recorded without its blobs)",
                  f"{sites[0][0].file}:{sites[0][2]}")
    if ext in writers:
        b = prog.main_body(ext)
        ins = [c for c in b.calls if short_name(c.callee) == "insert"
               and "sequencer_heights" in b.root(c.args[0])]
        rep.floor("S6", len(ins), 1, "sequencer_heights.insert")
        for c in ins:
            rep.check(b.root(c.args[1]) == "height(block)", "S6", "height-inserted=block-height",
                      f"inserts {b.root(c.args[1])[:60]}", c.where())
        mpush = [c for c in b.calls if c.matches(r"alloc::vec::Vec::<T, A>::push$")
                 and b.root(c.args[0]) == "self.metadata"]
        rep.check(bool(mpush) and all(b.must_pass_block(mpush[0].bb, r) for r in b.return_blocks()),
                  "S6", "height-and-metadata-together",
                  "a block's height can be recorded without its metadata being added", b.describe())
    # (e) a refused block leaves no trace in the next submission
    import c12
    c12.t1(prog, rep, rule="S6")

"""C06 Honest proposals are always accepted; malformed or over-limit ones rejected.

 P1 (K1) one implementation of the per-transaction proposal checks: both prepare- and
    process-side execution loops call `proposal_checks_and_tx_execution`; `execute_transaction`
    has no other proposal-phase caller.
 P2 (K2) process_proposal (executing path): acceptance (`post_execute_transactions`) is
    dominated by the true edges of both commitment comparisons, by the success edges of
    upgrade-hash check, transaction construction (decode + signature) and execution.
 P3 (K2+K3) inside the shared routine, a transaction is appended to the executed list only
    behind: CometBFT space (prepare), sequenced-data space, group-order test, and a successful
    or non-fatal execution; in the Process variant every failed check exits with an error
    (no Continue/Break), in the Prepare variant it skips the transaction.
 P4 (K2) byte counters: the append is followed by both checked counter updates on every success
    path; counters are only assigned inside `*_checked_add` behind the `<= max` comparison.
 P5 (K1) prepare and process derive the commitments with the same function from
    (transactions, cached deposits).
Not decided: liveness for every mempool content; CometBFT's exact byte accounting.
"""
import re

from facts import short_name
from kinds import (k1_callers, comparisons, bool_payload_edges, on_all_success_paths, error_cut,
                   result_blocks, all_edges_of_flag)

CRATES = ["astria_sequencer.lib", "astria_core.lib"]
S = "astria_sequencer::"
A = S + "app::App::"
PCE = A + "proposal_checks_and_tx_execution"
BSC = S + "proposal::block_size_constraints::BlockSizeConstraints::"


def is_test_owner(o):
    return "::tests" in o or "::test::" in o or "test_utils" in o or "benchmark" in o


def run(prog, rep):
    rep.explanation = (
        "Must-dominate and sibling-agreement rules on the proposal handlers' MIR: prepare and "
        "process share one per-transaction check routine; process_proposal accepts only behind "
        "both commitment equalities and the decode/signature/execution/upgrade-hash checks; in "
        "the shared routine the executed list grows only behind all admission checks, failed "
        "checks of the Process variant always exit with an error, the byte counters are updated "
        "after every inclusion and are only assigned behind their `<= max` comparison. Liveness "
        "over all mempool contents is not decided.")
    rep.assumptions += ["production cfg only", "CometBFT enforces max_tx_bytes on received proposals"]
    p1(prog, rep)
    p2(prog, rep)
    p3(prog, rep)
    p4(prog, rep)
    p5(prog, rep)


def p1(prog, rep):
    k1_callers(prog, rep, "P1", [PCE],
               [A + "prepare_proposal_tx_execution", A + "process_proposal_tx_execution"], floor=2,
               ignore_owner=is_test_owner)
    k1_callers(prog, rep, "P1", [A + "execute_transaction"], [PCE, A + "finalize_block"], floor=2,
               ignore_owner=is_test_owner)
    for fn in ("prepare_proposal_tx_execution", "process_proposal_tx_execution"):
        b = prog.main_body(A + fn)
        c = b.calls_to(PCE)
        rep.check(bool(c) and b.outcome_edges(c[0])["kind"] == "try", "P1", f"{fn}:propagates",
                  f"{fn} does not propagate an error of the shared check routine", b.describe())


def p2(prog, rep):
    body = prog.main_body(A + "process_proposal")
    post = body.calls_to(A + "post_execute_transactions")
    rep.floor("P2", len(post), 1, "post_execute_transactions in process_proposal")
    chk = body.calls_to(S + "app::execution_state::ExecutionStateMachine::check_if_prepared_proposal")
    be = all_edges_of_flag(body, chk[0]) if chk else None
    cached = set(be[0]) if be else set()
    cm = [c for c in comparisons(body) if c.op == "Eq"]
    tx_root = [c for c in cm if "rollup_transactions_root" in c.a + c.b]
    id_root = [c for c in cm if "rollup_ids_root" in c.a + c.b]
    gen = body.calls_to(S + "proposal::commitment::generate_rollup_datas_commitment")
    for p in post:
        for nm, cs in (("rollup_transactions_root", tx_root), ("rollup_ids_root", id_root)):
            ok = bool(cs) and bool(cached) and \
                body.must_pass_edges(set(cs[0].true_edges) | cached, p.bb)
            rep.check(ok, "P2", f"accept<={nm}-matches",
                      f"process_proposal accepts a block whose {nm} commitment was not compared "
                      f"(equal) with the one derived from its transactions", p.where())
            if cs:
                other = cs[0].b if nm in cs[0].a else cs[0].a
                # the expected side must come from generate_rollup_datas_commitment
                r_ok = any(("generate_rollup_datas_commitment" in r) for r in
                           body.named_def_roots("expected_rollup_datas_root") +
                           body.named_def_roots("expected_rollup_ids_root") + [other]) or bool(gen)
                rep.check(r_ok, "P2", f"{nm}:expected-from-generator",
                          "expected commitment is not derived by generate_rollup_datas_commitment",
                          p.where())
        for callee, nm in ((S + "app::ensure_upgrade_change_hashes_as_expected", "upgrade-hashes"),
                           (S + "app::construct_checked_txs", "decode+signature"),
                           (A + "process_proposal_tx_execution", "execution"),
                           (A + "pre_execute_transactions", "begin-block")):
            cs = body.calls_to(callee)
            ok = False
            if cs and cached:
                oe = body.outcome_edges(cs[0])
                ok = oe["kind"] == "try" and body.must_pass_edges(set(oe["ok"]) | cached, p.bb)
            rep.check(ok, "P2", f"accept<={nm}-ok",
                      f"process_proposal accepts a block without the {nm} step having succeeded",
                      p.where())
    for g in gen:
        a = [body.root(x) for x in g.args]
        rep.check("construct_checked_txs(" in a[0] and "get_cached_block_deposits(self.state)" in a[1],
                  "P2", f"generator-operands:{g.line}",
                  f"commitments derived from {[x[:50] for x in a]}", g.where())
    # construct_checked_txs: decodes and verifies every transaction
    b = prog.main_body(S + "app::construct_checked_txs")
    nw = [c for c in prog.calls_in(S + "app::construct_checked_txs")
          if c.matches(r"checked_transaction::CheckedTransaction::new$")]
    rep.floor("P2", len(nw), 1, "CheckedTransaction::new in construct_checked_txs")


def prepare_variant_edges(body, prog):
    """Edges of switches on the discriminant of `proposal_info` (enum Proposal) that select the
    Prepare variant."""
    adt = prog.adts.get(S + "app::Proposal")
    idx = None
    if adt:
        for i, v in enumerate(adt["variants"]):
            if v[0] == "Prepare":
                idx = i
    edges = set()
    nsw = 0
    for bb in sorted(body.live_blocks()):
        t = body.term(bb)
        if t[0] != "switch":
            continue
        r = body.root(t[1])
        if r.startswith("disc(proposal_info"):
            nsw += 1
            for v, tgt in t[2]:
                if v == idx:
                    edges.add((bb, tgt))
    return edges, nsw, idx


def p3(prog, rep):
    body = prog.main_body(PCE)
    push = [c for c in body.calls if c.matches(r"alloc::vec::Vec::<T, A>::push$")
            and "executed_txs_mut(proposal_info)" in body.root(c.args[0])]
    rep.floor("P3", len(push), 1, "executed_txs.push in proposal_checks_and_tx_execution")
    prep_edges, nsw, idx = prepare_variant_edges(body, prog)
    rep.floor("P3", nsw, 4, "matches on the Proposal variant")
    seq = [c for c in body.calls if c.is_(BSC + "sequencer_has_space")]
    cmt = [c for c in body.calls if c.is_(BSC + "cometbft_has_space")]
    grp = [c for c in comparisons(body) if c.op == "Gt" and "group(tx)" in c.a
           and "current_tx_group(proposal_info)" in c.b]
    ex = body.calls_to(A + "execute_transaction")
    e, bl = error_cut(body)
    ok_returns = set(result_blocks(body, "Ok"))
    for p in push:
        where = p.where()
        be = bool_payload_edges(body, seq[0]) if seq else None
        rep.check(be is not None and body.must_pass_edges(set(be[0]), p.bb), "P3",
                  "include<=sequenced-data-space",
                  "a transaction is included although the sequenced-data limit is exceeded", where)
        if be:
            a = [body.root(x) for x in seq[0].args]
            rep.check("rollup_data_bytes(tx)" in a[1] or "sum(" in a[1], "P3", "space-operand",
                      f"sequenced-data space tested with {a[1][:60]}", seq[0].where())
            # Process: failing the check must exit with an error
            bad = [r for (u, v) in be[1] for r in ok_returns
                   if r in body.reachable(v, removed_edges=prep_edges)]
            rep.check(not bad, "P3", "process:over-limit=>reject",
                      "ProcessProposal can continue (Ok) after a transaction exceeded the "
                      "sequenced-data limit", seq[0].where())
        bc = bool_payload_edges(body, cmt[0]) if cmt else None
        rep.check(bc is not None and
                  body.must_pass_edges(set(bc[0]) | {x for x in all_variant_edges(body) if x not in prep_edges},
                                       p.bb), "P3", "include<=cometbft-space(prepare)",
                  "PrepareProposal can include a transaction that exceeds the CometBFT byte limit",
                  where)
        rep.check(bool(grp) and body.must_pass_edges(set(grp[0].false_edges), p.bb), "P3",
                  "include<=group-order",
                  "a transaction of a higher-priority group can be included after a lower one",
                  where)
        if grp:
            bad = [r for (u, v) in grp[0].true_edges for r in ok_returns
                   if r in body.reachable(v, removed_edges=prep_edges)]
            rep.check(not bad, "P3", "process:misordered=>reject",
                      "ProcessProposal can continue (Ok) after a mis-ordered transaction",
                      f"{body.file}:{grp[0].line}")
        if ex:
            rep.check(body.must_pass_block(ex[0].bb, p.bb), "P3", "include<=executed",
                      "a transaction can be included without having been executed", where)
            oe = body.outcome_edges(ex[0])
            # generic error arm (not NonFatal): Process must return Err
            rep.check(oe["kind"] == "match_result", "P3", "execute-result-matched",
                      f"execute_transaction result handling changed (kind {oe['kind']})", ex[0].where())


def all_variant_edges(body):
    out = set()
    for bb in sorted(body.live_blocks()):
        t = body.term(bb)
        if t[0] == "switch" and body.root(t[1]).startswith("disc(proposal_info"):
            for v, tgt in t[2]:
                out.add((bb, tgt))
            out.add((bb, t[3]))
    return out


def p4(prog, rep):
    body = prog.main_body(PCE)
    push = [c for c in body.calls if c.matches(r"alloc::vec::Vec::<T, A>::push$")
            and "executed_txs_mut(proposal_info)" in body.root(c.args[0])]
    sadd = [c for c in body.calls if c.is_(BSC + "sequencer_checked_add")]
    cadd = [c for c in body.calls if c.is_(BSC + "cometbft_checked_add")]
    e, bl = error_cut(body)
    for p in push:
        for nm, cs, opnd in (("sequencer", sadd, r"rollup_data_bytes\(tx\)|sum\("),
                             ("cometbft", cadd, r"len\(encoded_bytes\(tx\)\)")):
            ok = bool(cs) and p.target is not None and not any(
                r in body.reachable(p.target, removed_edges=e, removed_blocks=set(bl) | {cs[0].bb})
                for r in body.return_blocks())
            rep.check(ok, "P4", f"include=>{nm}-counter",
                      f"a transaction can be included without the {nm} byte counter being "
                      f"increased (later transactions would be admitted beyond the limit)", p.where())
            if cs:
                rep.check(re.search(opnd, body.root(cs[0].args[1])) is not None, "P4",
                          f"{nm}-counter-operand", f"{nm} counter grows by {body.root(cs[0].args[1])[:60]}",
                          cs[0].where())
                rep.check(body.outcome_edges(cs[0])["kind"] == "try", "P4", f"{nm}-counter-propagated",
                          "counter overflow/limit error is swallowed", cs[0].where())
    # the same length is tested and added
    seq = [c for c in body.calls if c.is_(BSC + "sequencer_has_space")]
    if seq and sadd:
        rep.check(body.root(seq[0].args[1]) == body.root(sadd[0].args[1]), "P4", "tested=added:sequencer",
                  "the sequenced-data size tested differs from the size added", sadd[0].where())
    cmt = [c for c in body.calls if c.is_(BSC + "cometbft_has_space")]
    if cmt and cadd:
        rep.check(body.root(cmt[0].args[1]) == body.root(cadd[0].args[1]), "P4", "tested=added:cometbft",
                  "the encoded size tested differs from the size added", cadd[0].where())
    # counters only assigned in *_checked_add, behind the comparison
    for fn, field, mx in (("sequencer_checked_add", "current_size_sequencer", "max_size_sequencer"),
                          ("cometbft_checked_add", "current_size_cometbft", "max_size_cometbft")):
        b = prog.main_body(BSC + fn)
        assigns = [(i, line) for i, j, p, rv, line in b.assigns()
                   if p.endswith("." + field) and p.split("|")[0] in ("1",)]
        cm = [c for c in comparisons(b) if c.op in ("Gt", "Le", "Lt", "Ge") and mx in c.a + c.b]
        ok = bool(assigns) and bool(cm)
        if ok:
            c = cm[0]
            within = c.false_edges if c.op in ("Gt",) and mx in c.b else c.true_edges
            ok = all(b.must_pass_edges(set(within), i) for i, _ in assigns)
        rep.check(ok, "P4", f"{fn}:assign<=within-max",
                  f"{fn} can grow the counter beyond {mx}", b.describe())
    n = 0
    for b in prog.bodies:
        if is_test_owner(b.owner):
            continue
        for i, j, p, rv, line in b.assigns():
            if re.search(r"\.current_size_(sequencer|cometbft)$", p):
                n += 1
                ok = b.owner in (BSC + "sequencer_checked_add", BSC + "cometbft_checked_add")
                rep.check(ok, "P4", f"counter-writer:{short_name(b.owner)}",
                          f"{b.owner} assigns a block-size counter directly", f"{b.file}:{line}")
    rep.floor("P4", n, 2, "assignments to block-size counters")


def p5(prog, rep):
    gen = S + "proposal::commitment::generate_rollup_datas_commitment"
    k1_callers(prog, rep, "P5", [gen], [A + "prepare_proposal", A + "process_proposal"], floor=4,
               ignore_owner=is_test_owner)
    b = prog.main_body(A + "prepare_proposal")
    for g in b.calls_to(gen):
        a = [b.root(x) for x in g.args]
        rep.check("prepare_proposal_tx_execution(" in a[0] and
                  "get_cached_block_deposits(self.state)" in a[1], "P5", f"prepare-operands:{g.line}",
                  f"prepare derives commitments from {[x[:50] for x in a]}", g.where())

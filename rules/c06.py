"""C06 Honest proposals are always accepted; malformed or over-limit ones rejected.

 P1 (K1) one implementation of the per-transaction proposal checks: both prepare- and
    process-side execution loops call `proposal_checks_and_tx_execution`; `execute_transaction`
    has no other proposal-phase caller.
 P2 (K2) process_proposal (executing path): acceptance (`post_execute_transactions`) is
    dominated by the true edges of both commitment comparisons, by the success edges of
    upgrade-hash check, transaction construction (decode + signature) and execution.
 P3 (K2+K3) inside the shared routine, a transaction is appended to the executed list only
    behind: CometBFT space (prepare), sequenced-data space, group-order test, and a successful
    or non-fatal execution; in the Process variant every failed check exits with an error
    (no Continue/Break), in the Prepare variant it skips the transaction.
 P4 (K2) byte counters: the append is followed by both checked counter updates on every success
    path; counters are only assigned inside `*_checked_add` behind the `<= max` comparison.
 P6 (K2+K5) PrepareProposal charges the CometBFT byte budget with the length of each encoded
    injected data item before transactions are selected against the remaining budget.
 P5 (K1) prepare and process derive the commitments with the same function from
    (transactions, cached deposits).
Not decided: liveness for every mempool content; CometBFT's exact byte accounting.
"""
import re

from facts import short_name
from kinds import (rel, k1_callers, comparisons, bool_payload_edges, on_all_success_paths, error_cut,
                   result_blocks, all_edges_of_flag)

CRATES = ["astria_sequencer.lib", "astria_core.lib"]
S = "astria_sequencer::"
A = S + "app::App::"
PCE = A + "proposal_checks_and_tx_execution"
BSC = S + "proposal::block_size_constraints::BlockSizeConstraints::"


def is_test_owner(o):
    return "::tests" in o or "::test::" in o or "test_utils" in o or "benchmark" in o


def run(prog, rep):
    rep.explanation = (
        "Must-dominate and sibling-agreement rules on the proposal handlers' MIR: prepare and "
        "process share one per-transaction check routine; process_proposal accepts only behind "
        "both commitment equalities and the decode/signature/execution/upgrade-hash checks; in "
        "the shared routine the executed list grows only behind all admission checks, failed "
        "checks of the Process variant always exit with an error, the byte counters are updated "
        "after every inclusion and are only assigned behind their `<= max` comparison. Liveness "
        "over all mempool contents is not decided.")
    rep.assumptions += ["production cfg only", "CometBFT enforces max_tx_bytes on received proposals"]
    p1(prog, rep)
    p2(prog, rep)
    p3(prog, rep)
    p4(prog, rep)
    p5(prog, rep)
    p6(prog, rep)


def p1(prog, rep):
    k1_callers(prog, rep, "P1", [PCE],
               [A + "prepare_proposal_tx_execution", A + "process_proposal_tx_execution"], floor=2,
               ignore_owner=is_test_owner)
    k1_callers(prog, rep, "P1", [A + "execute_transaction"], [PCE, A + "finalize_block"], floor=2,
               ignore_owner=is_test_owner)
    for fn in ("prepare_proposal_tx_execution", "process_proposal_tx_execution"):
        b = prog.main_body(A + fn)
        c = b.calls_to(PCE)
        rep.check(bool(c) and b.outcome_edges(c[0])["kind"] == "try", "P1", f"{fn}:propagates",
                  f"{fn} does not propagate an error of the shared check routine", b.describe())


def p2(prog, rep):
    body = prog.main_body(A + "process_proposal")
    post = body.calls_to(A + "post_execute_transactions")
    rep.floor("P2", len(post), 1, "post_execute_transactions in process_proposal")
    chk = body.calls_to(S + "app::execution_state::ExecutionStateMachine::check_if_prepared_proposal")
    be = all_edges_of_flag(body, chk[0]) if chk else None
    cached = set(be[0]) if be else set()
    cm = [c for c in comparisons(body) if c.op == "Eq"]
    tx_root = [c for c in cm if "rollup_transactions_root" in c.a + c.b]
    id_root = [c for c in cm if "rollup_ids_root" in c.a + c.b]
    gen = body.calls_to(S + "proposal::commitment::generate_rollup_datas_commitment")
    for p in post:
        for nm, cs in (("rollup_transactions_root", tx_root), ("rollup_ids_root", id_root)):
            ok = bool(cs) and bool(cached) and \
                body.must_pass_edges(set(cs[0].true_edges) | cached, p.bb)
            rep.check(ok, "P2", f"accept<={nm}-matches",
                      f"process_proposal accepts a block whose {nm} commitment was not compared "
                      f"(equal) with the one derived from its transactions", p.where())
            if cs:
                own_first = nm in cs[0].a
                other = cs[0].b if own_first else cs[0].a
                # the expected side must be the matching field of what
                # generate_rollup_datas_commitment returned, on every definition of the expected
                # value (it is assigned in both arms of `if uses_data_item_enum`)
                field = {"rollup_transactions_root": "rollup_datas_root",
                         "rollup_ids_root": "rollup_ids_root"}[nm]
                srcs = body.tuple_field_def_roots(other) or [other]
                r_ok = bool(gen) and nm not in other and all(
                    "generate_rollup_datas_commitment" in r and r.endswith("." + field)
                    for r in srcs)
                rep.check(r_ok, "P2", f"{nm}:expected-from-generator",
                          f"the block's {nm} is compared with {srcs} - not with the {field} "
                          "derived by generate_rollup_datas_commitment from the block's "
                          "transactions and deposits", p.where())
        for callee, nm in ((S + "app::ensure_upgrade_change_hashes_as_expected", "upgrade-hashes"),
                           (S + "app::construct_checked_txs", "decode+signature"),
                           (A + "process_proposal_tx_execution", "execution"),
                           (A + "pre_execute_transactions", "begin-block")):
            cs = body.calls_to(callee)
            ok = False
            if cs and cached:
                oe = body.outcome_edges(cs[0])
                ok = oe["kind"] == "try" and body.must_pass_edges(set(oe["ok"]) | cached, p.bb)
            rep.check(ok, "P2", f"accept<={nm}-ok",
                      f"process_proposal accepts a block without the {nm} step having succeeded",
                      p.where())
    for g in gen:
        a = [body.root(x) for x in g.args]
        rep.check("construct_checked_txs(" in a[0] and "get_cached_block_deposits(self.state)" in a[1],
                  "P2", rep.nth("generator-operands"),
                  f"commitments derived from {[x[:50] for x in a]}", g.where())
    # construct_checked_txs: decodes and verifies every transaction
    b = prog.main_body(S + "app::construct_checked_txs")
    nw = [c for c in prog.calls_in(S + "app::construct_checked_txs")
          if c.matches(r"checked_transaction::CheckedTransaction::new$")]
    rep.floor("P2", len(nw), 1, "CheckedTransaction::new in construct_checked_txs")


def prepare_variant_edges(body, prog):
    """Edges of switches on the discriminant of `proposal_info` (enum Proposal) that select the
    Prepare variant."""
    adt = prog.adts.get(S + "app::Proposal")
    idx = None
    if adt:
        for i, v in enumerate(adt["variants"]):
            if v[0] == "Prepare":
                idx = i
    edges = set()
    nsw = 0
    for bb in sorted(body.live_blocks()):
        t = body.term(bb)
        if t[0] != "switch":
            continue
        r = body.root(t[1])
        if r.startswith("disc(proposal_info"):
            nsw += 1
            for v, tgt in t[2]:
                if v == idx:
                    edges.add((bb, tgt))
    return edges, nsw, idx


def p3(prog, rep):
    body = prog.main_body(PCE)
    push = [c for c in body.calls if c.matches(r"alloc::vec::Vec::<T, A>::push$")
            and "executed_txs_mut(proposal_info)" in body.root(c.args[0])]
    rep.floor("P3", len(push), 1, "executed_txs.push in proposal_checks_and_tx_execution")
    prep_edges, nsw, idx = prepare_variant_edges(body, prog)
    rep.floor("P3", nsw, 4, "matches on the Proposal variant")
    seq = [c for c in body.calls if c.is_(BSC + "sequencer_has_space")]
    cmt = [c for c in body.calls if c.is_(BSC + "cometbft_has_space")]
    grp = rel(body, "Gt", r"group\(tx\)", r"current_tx_group\(proposal_info\)")
    ex = body.calls_to(A + "execute_transaction")
    e, bl = error_cut(body)
    ok_returns = set(result_blocks(body, "Ok"))
    for p in push:
        where = p.where()
        be = bool_payload_edges(body, seq[0]) if seq else None
        rep.check(be is not None and body.must_pass_edges(set(be[0]), p.bb), "P3",
                  "include<=sequenced-data-space",
                  "a transaction is included although the sequenced-data limit is exceeded", where)
        if be:
            a = [body.root(x) for x in seq[0].args]
            rep.check("rollup_data_bytes(tx)" in a[1] or "sum(" in a[1], "P3", "space-operand",
                      f"sequenced-data space tested with {a[1][:60]}", seq[0].where())
            # Process: failing the check must exit with an error
            bad = [r for (u, v) in be[1] for r in ok_returns
                   if r in body.reachable(v, removed_edges=prep_edges)]
            rep.check(not bad, "P3", "process:over-limit=>reject",
                      "ProcessProposal can continue (Ok) after a transaction exceeded the "
                      "sequenced-data limit", seq[0].where())
        bc = bool_payload_edges(body, cmt[0]) if cmt else None
        rep.check(bc is not None and
                  body.must_pass_edges(set(bc[0]) | {x for x in all_variant_edges(body) if x not in prep_edges},
                                       p.bb), "P3", "include<=cometbft-space(prepare)",
                  "PrepareProposal can include a transaction that exceeds the CometBFT byte limit",
                  where)
        rep.check(bool(grp) and body.must_pass_edges(set(grp[0].false_edges), p.bb), "P3",
                  "include<=group-order",
                  "a transaction of a higher-priority group can be included after a lower one",
                  where)
        if grp:
            bad = [r for (u, v) in grp[0].true_edges for r in ok_returns
                   if r in body.reachable(v, removed_edges=prep_edges)]
            rep.check(not bad, "P3", "process:misordered=>reject",
                      "ProcessProposal can continue (Ok) after a mis-ordered transaction",
                      f"{body.file}:{grp[0].line}")
        if ex:
            rep.check(body.must_pass_block(ex[0].bb, p.bb), "P3", "include<=executed",
                      "a transaction can be included without having been executed", where)
            oe = body.outcome_edges(ex[0])
            # generic error arm (not NonFatal): Process must return Err
            rep.check(oe["kind"] == "match_result", "P3", "execute-result-matched",
                      f"execute_transaction result handling changed (kind {oe['kind']})", ex[0].where())


def all_variant_edges(body):
    out = set()
    for bb in sorted(body.live_blocks()):
        t = body.term(bb)
        if t[0] == "switch" and body.root(t[1]).startswith("disc(proposal_info"):
            for v, tgt in t[2]:
                out.add((bb, tgt))
            out.add((bb, t[3]))
    return out


def p4(prog, rep):
    body = prog.main_body(PCE)
    push = [c for c in body.calls if c.matches(r"alloc::vec::Vec::<T, A>::push$")
            and "executed_txs_mut(proposal_info)" in body.root(c.args[0])]
    sadd = [c for c in body.calls if c.is_(BSC + "sequencer_checked_add")]
    cadd = [c for c in body.calls if c.is_(BSC + "cometbft_checked_add")]
    e, bl = error_cut(body)
    for p in push:
        for nm, cs, opnd in (("sequencer", sadd, r"rollup_data_bytes\(tx\)|sum\("),
                             ("cometbft", cadd, r"len\(encoded_bytes\(tx\)\)")):
            ok = bool(cs) and p.target is not None and not any(
                r in body.reachable(p.target, removed_edges=e, removed_blocks=set(bl) | {cs[0].bb})
                for r in body.return_blocks())
            rep.check(ok, "P4", f"include=>{nm}-counter",
                      f"a transaction can be included without the {nm} byte counter being "
                      f"increased (later transactions would be admitted beyond the limit)", p.where())
            if cs:
                rep.check(re.search(opnd, body.root(cs[0].args[1])) is not None, "P4",
                          f"{nm}-counter-operand", f"{nm} counter grows by {body.root(cs[0].args[1])[:60]}",
                          cs[0].where())
                rep.check(body.outcome_edges(cs[0])["kind"] == "try", "P4", f"{nm}-counter-propagated",
                          "counter overflow/limit error is swallowed", cs[0].where())
    # the same length is tested and added
    seq = [c for c in body.calls if c.is_(BSC + "sequencer_has_space")]
    if seq and sadd:
        rep.check(body.root(seq[0].args[1]) == body.root(sadd[0].args[1]), "P4", "tested=added:sequencer",
                  "the sequenced-data size tested differs from the size added", sadd[0].where())
    cmt = [c for c in body.calls if c.is_(BSC + "cometbft_has_space")]
    if cmt and cadd:
        rep.check(body.root(cmt[0].args[1]) == body.root(cadd[0].args[1]), "P4", "tested=added:cometbft",
                  "the encoded size tested differs from the size added", cadd[0].where())
    # counters only assigned in *_checked_add, behind the comparison
    for fn, field, mx in (("sequencer_checked_add", "current_size_sequencer", "max_size_sequencer"),
                          ("cometbft_checked_add", "current_size_cometbft", "max_size_cometbft")):
        b = prog.main_body(BSC + fn)
        assigns = [(i, line) for i, j, p, rv, line in b.assigns()
                   if p.endswith("." + field) and p.split("|")[0] in ("1",)]
        cm = rel(b, "Le", r".", re.escape(mx), pure=False)
        ok = bool(assigns) and bool(cm)
        if ok:
            ok = all(b.must_pass_edges(set(cm[0].true_edges), i) for i, _ in assigns)
        rep.check(ok, "P4", f"{fn}:assign<=within-max",
                  f"{fn} can grow the counter beyond {mx}", b.describe())
    n = 0
    for b in prog.bodies:
        if is_test_owner(b.owner):
            continue
        for i, j, p, rv, line in b.assigns():
            if re.search(r"\.current_size_(sequencer|cometbft)$", p):
                n += 1
                ok = b.owner in (BSC + "sequencer_checked_add", BSC + "cometbft_checked_add")
                rep.check(ok, "P4", f"counter-writer:{short_name(b.owner)}",
                          f"{b.owner} assigns a block-size counter directly", f"{b.file}:{line}")
    rep.floor("P4", n, 2, "assignments to block-size counters")


def p5(prog, rep):
    gen = S + "proposal::commitment::generate_rollup_datas_commitment"
    k1_callers(prog, rep, "P5", [gen], [A + "prepare_proposal", A + "process_proposal"], floor=4,
               ignore_owner=is_test_owner)
    b = prog.main_body(A + "prepare_proposal")
    for g in b.calls_to(gen):
        a = [b.root(x) for x in g.args]
        rep.check("prepare_proposal_tx_execution(" in a[0] and
                  "get_cached_block_deposits(self.state)" in a[1], "P5", rep.nth("prepare-operands"),
                  f"prepare derives commitments from {[x[:50] for x in a]}", g.where())
    # the generator itself: both trees are derived from the rollup map sorted by key *after*
    # the deposits were merged in (rule shared with C07-R2 / C05-D2); otherwise the proposal's
    # commitments differ from what SequencerBlockBuilder::try_build re-derives from sorted data
    # and every honest node rejects the honest proposal
    import c07
    c07.sorted_before_tree(prog, rep, "P5", (gen,))
    # the block that is built, stored and served after execution re-derives both roots from its
    # own inputs (SequencerBlockBuilder::try_build) and must reproduce the proposal's
    # commitments: it has to be fed the rollup data of *every* executed transaction, in order,
    # and the same cached deposits - no selecting or reordering adapter in between
    b = prog.main_body(A + "post_execute_transactions")
    aggs = list(b.aggregates("adt", r"SequencerBlockBuilder$"))
    rep.floor("P5", len(aggs), 1, "SequencerBlockBuilder construction in post_execute_transactions")
    SELECTING = {"filter", "filter_map", "take", "skip", "take_while", "skip_while", "step_by",
                 "rev", "dedup", "retain", "truncate", "sort", "sort_by", "sort_by_key", "chain",
                 "zip", "nth", "last", "first", "find", "find_map", "partition",
                 "map_while", "scan", "peekable"}
    for i, j, p_, rv, line in aggs:
        f = dict(zip(rv[5], [b.root(o) for o in rv[4]]))
        rd = f.get("rollup_data_bytes", "")
        head = rd.split("closure:")[0]
        fns = set(re.findall(r"(\w+)\(", head))
        closures = [c for bb_ in prog.bodies_of(A + "post_execute_transactions") for c in bb_.calls
                    if short_name(c.callee) == "rollup_data_bytes"]
        ok = head.startswith("collect(") and "iter(executed_txs)" in head and \
            not (fns & SELECTING) and "~mut" not in head and bool(closures)
        rep.check(ok, "P5", "built-block:rollup-data-of-all-executed-txs",
                  f"the sequencer block is built from `{rd[:110]}`: not the rollup data of every "
                  "executed transaction in order (the roots it re-derives would differ from the "
                  "proposal's commitments: every honest node rejects the block)",
                  f"{b.file}:{line}")
        rep.check(f.get("deposits") == "get_cached_block_deposits(self.state)", "P5",
                  "built-block:deposits=cached-deposits",
                  f"the sequencer block is built with deposits `{f.get('deposits', '')[:80]}`",
                  f"{b.file}:{line}")


# ----------------------------------------------------------------------------------------------
# P6 (strengthened after seed C06a): PrepareProposal charges the CometBFT byte budget with the
# encoded size of every injected data item, i.e. with the length of the very bytes it includes.

def p6(prog, rep):
    body = prog.main_body(A + "prepare_proposal")
    enc = [c for c in body.calls if c.matches(r"sequencerblock::v1::block::DataItem::encode$")]
    adds = [c for c in body.calls if c.is_(BSC + "cometbft_checked_add")]
    txx = body.calls_to(A + "prepare_proposal_tx_execution")
    rep.floor("P6", len(enc), 2, "DataItem::encode calls in prepare_proposal")
    rep.floor("P6", len(adds), 2, "cometbft_checked_add calls in prepare_proposal")
    if not txx:
        rep.anchor_missing("P6", A + "prepare_proposal_tx_execution (call in prepare_proposal)")
        return
    # every encoded injected item is charged before the transactions get the remaining budget
    for e in enc:
        if e.target is None:
            continue
        # the encoded value may be wrapped in Some(..) of a named Option that is tested again
        # later (`if let Some(bytes) = &encoded_..`): on paths from this encode it *is* Some
        infeasible = set()
        d = int(e.dest.split("|")[0])
        for i, j, p, rv, line in body.aggregates("adt", r"core::option::Option$"):
            if rv[3] == "Some" and rv[4] and rv[4][0][0] in "cm" and \
                    int(rv[4][0][1].split("|")[0]) == d:
                nm = body.dbg_name(p)
                if nm:
                    for sb in body.live_blocks():
                        t = body.term(sb)
                        if t[0] == "switch" and body.root(t[1]) == f"disc({nm})":
                            infeasible |= {(sb, tgt) for v, tgt in t[2] if v != 1}
                            if any(v == 1 for v, _ in t[2]):
                                infeasible.add((sb, t[3]))
        ok = txx[0].bb not in body.reachable(e.target, removed_edges=infeasible,
                                             removed_blocks=[a.bb for a in adds])
        rep.check(ok, "P6", rep.nth("encoded-item=>charged"),
                  "an injected data item is encoded (and later included in the proposal) on a path "
                  "that does not charge its size to the CometBFT byte budget before transactions "
                  "are selected: the block can exceed max_tx_bytes by the uncounted bytes",
                  e.where())
    # what is charged is the length of a DataItem-encoded value (not of its inner payload)
    for a in adds:
        r = body.root(a.args[1])
        m = re.fullmatch(r"len\((\w+)(<Some>\.0)?\)", r)
        ok = False
        detail = r
        if m:
            defs = [d for d in body.named_def_roots(m.group(1)) if d != "agg"]
            detail = f"{r} with {m.group(1)} := {[d[:60] for d in defs]}"
            ok = all(d.startswith("encode(adt:astria_core::sequencerblock::v1::block::DataItem::")
                     for d in defs) and (bool(defs) or m.group(2) is not None)
            if not defs and m.group(2):
                # Option-wrapped: the payload inside Some(..) must be an encode(..) result
                somes = [body.root(rv[4][0]) for i, j, p, rv, line in
                         body.aggregates("adt", r"core::option::Option$") if rv[3] == "Some" and rv[4]]
                ok = any(s.startswith("encode(adt:astria_core::sequencerblock::v1::block::DataItem::")
                         for s in somes)
        elif r.startswith("len(encode(adt:astria_core::sequencerblock::v1::block::DataItem::"):
            ok = True
        rep.check(ok, "P6", rep.nth("charged=len(encoded-item)"),
                  f"the CometBFT byte budget is charged with `{detail[:160]}`, which is not the "
                  f"length of the encoded data item that is put into the block", a.where(),
                  detail=detail[:120])
    # the items chained into the response are those encoded values
    ch = [c for c in body.calls if c.matches(r"core::iter::traits::iterator::Iterator::chain$")]
    rep.floor("P6", len(ch), 2, "chain calls assembling the proposal")
    # BlockSizeConstraints::new(max_tx_bytes, ..)
    nw = [c for c in body.calls if c.is_(BSC + "new")]
    rep.check(bool(nw) and body.root(nw[0].args[0]) == "prepare_proposal.max_tx_bytes", "P6",
              "budget=max_tx_bytes", "the byte budget is not CometBFT's max_tx_bytes", body.describe())
    if nw and txx:
        rep.check("new(prepare_proposal.max_tx_bytes" in body.root(txx[0].args[1]), "P6",
                  "txs-get-the-charged-budget",
                  "transaction selection does not use the budget that the injected items were "
                  "charged to", txx[0].where())

"""C10 Conductor executes each height once, in order, under any soft/firm interleaving.

 X1 (K1) only execute_soft / execute_firm reach the ExecuteBlock RPC (through execute_block);
    only update_commitment_state reaches the UpdateCommitmentState RPC and the local state
    update.
 X2 (K2+K5) execute_soft issues the RPC only on the `Equal` arm of
    height.cmp(next_expected_soft_sequencer_height) (Less drops, Greater errors) with parent
    soft_hash; execute_firm only on the true edge of height == next_expected_firm_sequencer_
    height, with parent firm_hash; the contract check (number == current + 1) succeeds before
    the commitment update.
 X3 (K3+K5) Update variants pair with the path: soft -> OnlySoft(executed); firm -> ToSame iff
    the RPC was issued on this path, else OnlyFirm with the block stored under (or fetched by)
    the rollup number mapped from this sequencer height; soft stores its result under that same
    mapping.
 X4 (K4-style) BlockCache.next_height only moves forward: +1 on pop (of exactly that key) or
    max(self, x); insert refuses heights below it before touching the map.
 X5 (K1+K2) CommitmentState is only built by the builder, behind firm.number <= soft.number.
Not decided: all interleavings of the two streams.
"""
import re

from facts import short_name
from kinds import (must_be_equal, rel, k1_callers, k1_constructors, comparisons, result_blocks, k2_site_guarded,
                   on_all_success_paths, bool_payload_edges)

CRATES = ["astria_conductor.lib", "astria_core.lib"]
C = "astria_conductor::"
EX = C + "executor::Initialized::"
CL = C + "executor::client::Client::"


def is_test_owner(o):
    return "::tests" in o or "::test::" in o or "test_utils" in o


def run(prog, rep):
    rep.explanation = (
        "Who-may-call, must-dominate and operand-provenance rules on the conductor executor MIR: "
        "the ExecuteBlock RPC is only reachable through execute_soft/execute_firm and only on "
        "the height-equality edge against the next expected soft/firm height with the matching "
        "parent hash; the contract check precedes every commitment update; Update variants pair "
        "with the path taken; the reader-side block cache's next height is monotone and pop "
        "removes exactly that height; CommitmentState is only built with firm <= soft. Stream "
        "interleavings are not enumerated.")
    rep.assumptions += ["gRPC client retries are transparent", "production cfg only"]
    x1(prog, rep)
    x2(prog, rep)
    x3(prog, rep)
    x4(prog, rep)
    x5(prog, rep)


def x1(prog, rep):
    k1_callers(prog, rep, "X1", [CL + "execute_block_with_retry"], [EX + "execute_block"], floor=1,
               ignore_owner=is_test_owner)
    k1_callers(prog, rep, "X1", [EX + "execute_block"], [EX + "execute_soft", EX + "execute_firm"],
               floor=2, ignore_owner=is_test_owner)
    k1_callers(prog, rep, "X1", [CL + "update_commitment_state_with_retry"],
               [EX + "update_commitment_state"], floor=1, ignore_owner=is_test_owner)
    k1_callers(prog, rep, "X1", [C + "state::StateSender::try_update_commitment_state"],
               [EX + "update_commitment_state"], floor=1, ignore_owner=is_test_owner)
    k1_callers(prog, rep, "X1", [EX + "update_commitment_state"],
               [EX + "execute_soft", EX + "execute_firm"], floor=2, ignore_owner=is_test_owner)
    k1_callers(prog, rep, "X1", [EX + "execute_soft", EX + "execute_firm"],
               [EX + "run_event_loop"], floor=2, ignore_owner=is_test_owner)


def x2(prog, rep):
    # ---- soft
    body = prog.main_body(EX + "execute_soft")
    rpc = body.calls_to(EX + "execute_block")
    rep.floor("X2", len(rpc), 1, "execute_block in execute_soft")
    if rpc:
        # the block's own height must equal the next expected soft height on every path to the
        # RPC, however the three-way decision is spelled (match on cmp, ==, or two early exits)
        ok, how = must_be_equal(body, r"from_sequencer\(.*\)\.height",
                                r"next_expected_soft_sequencer_height\(self\.state\)", rpc[0].bb)
        rep.check(ok, "X2", "soft:rpc<=height==expected",
                  "execute_soft can issue ExecuteBlock for a block whose height is not the next "
                  "expected soft height (stale or skipped block executed)", rpc[0].where(),
                  detail=how)
        ra = [body.root(x) for x in rpc[0].args]
        rep.check(ra[2] == "soft_hash(self.state)", "X2", "soft:parent=soft_hash",
                  f"soft block executed on parent `{ra[2][:60]}`", rpc[0].where())
        rep.check("from_sequencer(" in ra[3], "X2", "soft:block-operand", f"executes {ra[3][:60]}",
                  rpc[0].where())
    # ---- firm
    body = prog.main_body(EX + "execute_firm")
    rpc = body.calls_to(EX + "execute_block")
    rep.floor("X2", len(rpc), 1, "execute_block in execute_firm")
    eq = [c for c in comparisons(body) if c.op == "Eq" and
          "next_expected_firm_sequencer_height(self.state)" in c.a + "|" + c.b and "height" in c.a + c.b]
    for r in rpc:
        rep.check(bool(eq) and body.must_pass_edges(set(eq[0].true_edges), r.bb), "X2",
                  "firm:rpc<=height==expected",
                  "execute_firm can issue ExecuteBlock for a block whose height is not the next "
                  "expected firm height", r.where())
        ra = [body.root(x) for x in r.args]
        rep.check(ra[2] == "firm_hash(self.state)", "X2", "firm:parent=firm_hash",
                  f"firm block executed on parent `{ra[2][:60]}`", r.where())
    if eq:
        upd = body.calls_to(EX + "update_commitment_state")
        for u in upd:
            rep.check(body.must_pass_edges(set(eq[0].true_edges), u.bb), "X2",
                      "firm:update<=height==expected",
                      "firm commitment can be updated for an out-of-order block", u.where())
    # ---- contract check before update (both)
    for fn, kind in (("execute_soft", "Soft"), ("execute_firm", "Firm")):
        body = prog.main_body(EX + fn)
        chk = body.calls_to(EX + "does_block_response_fulfill_contract")
        upd = body.calls_to(EX + "update_commitment_state")
        rpc = body.calls_to(EX + "execute_block")
        rep.floor("X2", len(chk), 1, f"contract check in {fn}")
        for c in chk:
            a = [body.root(x) for x in c.args]
            rep.check(kind in a[1] and "execute_block(" in a[2], "X2", f"{fn}:contract-operands",
                      f"contract checked as {a[1:]}", c.where())
            oe = body.outcome_edges(c)
            rep.check(oe["kind"] == "try", "X2", f"{fn}:contract-propagated",
                      "a contract violation is swallowed", c.where())
        for u in upd:
            # every path that issued the RPC passes the contract check before the update
            for r in rpc:
                ok = bool(chk) and r.target is not None and \
                    u.bb not in body.reachable(r.target, removed_blocks=[c.bb for c in chk])
                rep.check(ok, "X2", f"{fn}:update<=contract-ok",
                          f"{fn} can update the commitment state after an ExecuteBlock response "
                          f"that was not checked against the contract (number == current + 1)",
                          u.where())
    b = prog.main_body(C + "executor::does_block_response_fulfill_contract")
    oks = result_blocks(b, "Ok")
    eq = [c for c in comparisons(b) if c.op == "Eq" and "number(block_metadata)" in c.a + c.b
          and "checked_add(" in c.a + c.b]
    rep.check(bool(eq) and bool(oks) and all(b.must_pass_edges(set(eq[0].true_edges), o) for o in oks),
              "X2", "contract:number==current+1",
              "contract check can succeed although the returned number is not current + 1",
              b.describe())
    if eq:
        side = eq[0].a if "checked_add(" in eq[0].a else eq[0].b
        rep.check(re.search(r"checked_add\(.*(firm_number|soft_number)\(state\).*,const\(1\)\)", side)
                  is not None or "const(1)" in side, "X2", "contract:current-from-state",
                  f"expected number computed as {side[:90]}", b.describe())


def x3(prog, rep):
    MAP = C + "state::try_map_sequencer_height_to_rollup_height"
    # soft
    body = prog.main_body(EX + "execute_soft")
    upd = body.calls_to(EX + "update_commitment_state")
    for u in upd:
        r = body.root(u.args[1])
        rep.check(r.startswith("adt:astria_conductor::executor::Update::OnlySoft{") and "execute_block(" in r,
                  "X3", "soft:update-from-rpc", f"soft update built from {r[:80]}", u.where())
    ag = [(i, rv) for i, j, p, rv, line in body.aggregates("adt", r"executor::Update$")]
    rep.check(bool(ag) and all(rv[3] == "OnlySoft" for i, rv in ag), "X3", "soft:variant=OnlySoft",
              f"execute_soft builds Update::{[rv[3] for i, rv in ag]}", body.describe())
    ins = [c for c in body.calls if c.matches(r"BTreeMap::<K, V, A>::insert$|HashMap::<.*>::insert$")
           and "blocks_pending_finalization" in body.root(c.args[0])]
    rep.floor("X3", len(ins), 1, "blocks_pending_finalization.insert")
    for c in ins:
        a = [body.root(x) for x in c.args]
        rep.check(a[1].startswith("try_map_sequencer_height_to_rollup_height(") and
                  "from_sequencer(" in a[1] and "execute_block(" in a[2], "X3", "soft:pending-key",
                  f"pending block stored as ({a[1][:70]}, {a[2][:40]})", c.where())
    # firm
    body = prog.main_body(EX + "execute_firm")
    rpc = body.calls_to(EX + "execute_block")
    should = body.calls_to(EX + "should_execute_firm_block")
    be = bool_payload_edges(body, should[0]) if should else None
    variants = {}
    for i, j, p, rv, line in body.aggregates("adt", r"executor::Update$"):
        variants.setdefault(rv[3], []).append((i, [body.root(o) for o in rv[4]], line))
    rep.check(set(variants) == {"ToSame", "OnlyFirm"}, "X3", "firm:variants",
              f"execute_firm builds Update::{sorted(variants)}", body.describe())
    for i, ops, line in variants.get("ToSame", []):
        ok = "execute_block(" in ops[0] and be is not None and body.must_pass_edges(set(be[0]), i) \
            and all(body.must_pass_block(r.bb, i) for r in rpc)
        rep.check(ok, "X3", "firm:ToSame<=executed-here",
                  "Update::ToSame (moves soft AND firm) is built without the block having been "
                  "executed on this path", f"{body.file}:{line}")
    for i, ops, line in variants.get("OnlyFirm", []):
        ok = be is not None and body.must_pass_edges(set(be[1]), i) and \
            ("remove(self.blocks_pending_finalization,try_map_sequencer_height_to_rollup_height(" in ops[0]
             or "get_executed_block_metadata_with_retry(self.client,try_map_sequencer_height_to_rollup_height("
             in ops[0])
        rep.check(ok, "X3", rep.nth("firm:OnlyFirm<=same-number"),
                  f"Update::OnlyFirm names `{ops[0][:100]}`: not the block stored/fetched under the "
                  f"rollup number mapped from this sequencer height", f"{body.file}:{line}")
    for r in rpc:
        rep.check(be is not None and body.must_pass_edges(set(be[0]), r.bb), "X3",
                  "firm:rpc<=should_execute", "firm block re-executed although soft already ran it",
                  r.where())
    mp = body.calls_to(MAP)
    for c in mp:
        a = [body.root(x) for x in c.args]
        rep.check("from_reconstructed(" in a[2] and a[2].endswith(".height"), "X3", "firm:map-operand",
                  f"rollup number mapped from {a[2][:60]}", c.where())
    # should_execute_firm_block compares next firm / next soft heights
    b = prog.main_body(EX + "should_execute_firm_block")
    c = b.calls_to(C + "executor::should_execute_firm_block")
    ok = bool(c) and [b.root(x) for x in c[0].args][:2] == [
        "value(next_expected_firm_sequencer_height(self.state))",
        "value(next_expected_soft_sequencer_height(self.state))"]
    rep.check(ok, "X3", "should_execute:operands",
              "should_execute_firm_block no longer compares the next expected firm and soft heights",
              b.describe())
    # update_commitment_state: variant -> (firm, soft) pairing
    b = prog.main_body(EX + "update_commitment_state")
    tup = {}
    for i, j, p, rv, line in b.aggregates("tuple"):
        r = [b.root(o) for o in rv[4]]
        if len(r) == 4:
            tup[i] = r
    good = 0
    for i, r in tup.items():
        if "<OnlyFirm>" in r[0] and r[1] == "soft(self.state)":
            good += 1
        elif r[0] == "firm(self.state)" and "<OnlySoft>" in r[1]:
            good += 1
        elif "<ToSame>" in r[0] and "<ToSame>" in r[1]:
            good += 1
    rep.check(len(tup) == 3 and good == 3, "X3", "update:variant-pairing",
              f"update_commitment_state maps the Update variants to (firm, soft) as "
              f"{[(r[0][:30], r[1][:30]) for r in tup.values()]}", b.describe())
    bl = [c for c in b.calls if c.matches(r"CommitmentStateBuilder<.*>::build$|CommitmentStateBuilder::<.*>::build$")]
    rep.check(bool(bl) and b.outcome_edges(bl[0])["kind"] == "try", "X3", "update:build-propagated",
              "a firm>soft commitment state is not rejected before the RPC", b.describe())


def x4_drop_obsolete(prog, rep):
    """BlockCache::drop_obsolete(latest): on *every* path the cache's next height becomes
    max(next_height, latest) - otherwise blocks below `latest` that arrive late are accepted by
    `insert` again and handed to the executor - and what is kept is `split_off(latest)`."""
    o = C + "block_cache::BlockCache::<T>::drop_obsolete"
    if o not in prog.by_owner:
        rep.anchor_missing("X4", o)
        return
    b = prog.main_body(o)
    asg = [(i, line) for i, j, p_, rv, line in b.assigns()
           if b.place_root(p_) == "self.next_height" and rv[0] == "use"
           and re.fullmatch(r"max\(self\.next_height,value\(latest_height\)\)|"
                            r"max\(value\(latest_height\),self\.next_height\)", b.root(rv[1]))]
    rep.floor("X4", len(asg), 1, "next_height := max(next_height, latest) in drop_obsolete")
    ok = bool(asg) and all(any(b.must_pass_block(i, r) for i, _ in asg) for r in b.return_blocks())
    rep.check(ok, "X4", "drop_obsolete:next_height-advanced-on-every-path",
              "drop_obsolete can return without having advanced next_height to the latest "
              "executed height: stale blocks would be accepted into the cache again", b.describe())
    sp = [c for c in b.calls if short_name(c.callee) == "split_off" and not c.expn]
    for c in sp:
        a = [b.root(x) for x in c.args]
        rep.check(a[0].startswith("self.inner") and a[1] == "value(latest_height)", "X4",
                  "drop_obsolete:keeps-from-latest", f"split_off({a})", c.where())


def x4(prog, rep):
    x4_drop_obsolete(prog, rep)
    BC = C + "block_cache::BlockCache::<T>::"
    n = 0
    for o in prog.owners(r"^astria_conductor::block_cache::"):
        if is_test_owner(o):
            continue
        for b in prog.bodies_of(o):
            for i, j, p, rv, line in b.assigns():
                if re.search(r"\.next_height$", p) and p.split("|")[0] == "1":
                    n += 1
                    r = b.root(["m", str(p.split("|")[0])]) if False else None
                    val = describe_rv(b, rv)
                    ok = (o == BC + "pop" and re.match(r"^expect\(checked_add\(self\.next_height,const\(1\)\)", val)) \
                        or (o == BC + "drop_obsolete" and re.match(r"^max\(self\.next_height,", val))
                    rep.check(bool(ok), "X4", f"next_height:{short_name(o)}",
                              f"{o} assigns next_height = {val[:80]}: not +1 / max(self, x) - the "
                              f"cache could move backwards or skip a height", f"{b.file}:{line}")
    rep.floor("X4", n, 2, "assignments to BlockCache.next_height")
    b = prog.main_body(BC + "pop")
    rm = [c for c in b.calls if c.matches(r"BTreeMap::<K, V, A>::remove$")]
    rep.check(bool(rm) and b.root(rm[0].args[1]) == "self.next_height", "X4", "pop-removes-next",
              "pop does not remove exactly the next height", b.describe())
    # +1 only after a successful removal
    adds = [c for c in b.calls if c.matches(r"core::num::<impl u64>::checked_add$")]
    if rm and adds:
        oe = b.outcome_edges(rm[0])
        rep.check(oe["kind"] == "try" and b.must_pass_edges(set(oe["ok"]), adds[0].bb), "X4",
                  "pop:+1<=removed", "next_height advances although no block was removed", b.describe())
    b = prog.main_body(BC + "insert")
    lt = rel(b, "Lt", r".", r"^self\.next_height$")
    ent = [c for c in b.calls if c.matches(r"BTreeMap::<K, V, A>::entry$|VacantEntry::<.*>::insert$")]
    rep.check(bool(lt) and bool(ent) and all(b.must_pass_edges(set(lt[0].false_edges), e.bb) for e in ent),
              "X4", "insert<=not-old", "a block below next_height can be inserted into the cache",
              b.describe())


def describe_rv(body, rv):
    if rv[0] == "use":
        return body.root(rv[1])
    if rv[0] == "bin":
        return f"({body.root(rv[2])} {rv[1]} {body.root(rv[3])})"
    return rv[0]


def x5(prog, rep):
    T = "astria_core::execution::v2::CommitmentState"
    k1_constructors(prog, rep, "X5", "^" + re.escape(T) + "$",
                    [re.compile(r"^astria_core::execution::v2::CommitmentStateBuilder::<.*>::build$"),
                     re.compile(r"^<astria_core::execution::v2::CommitmentState as core::clone::Clone>::clone$")],
                    floor=1)
    for o in prog.owners(r"^astria_core::execution::v2::CommitmentStateBuilder::<.*>::build$"):
        b = prog.main_body(o)
        oks = result_blocks(b, "Ok")
        # exactly number(firm) > number(soft): no slack term on either side
        gt = rel(b, "Gt", r"^number\(self\.firm_executed_block_metadata(\.0)?\)$",
                 r"^number\(self\.soft_executed_block_metadata(\.0)?\)$")
        rep.check(bool(gt) and bool(oks) and all(b.must_pass_edges(set(gt[0].false_edges), k) for k in oks),
                  "X5", "build<=firm<=soft",
                  "a CommitmentState with firm.number > soft.number can be built", b.describe())
    # the protobuf conversion goes through the builder
    o = "<astria_core::execution::v2::CommitmentState as astria_core::Protobuf>::try_from_raw_ref"
    if o in prog.by_owner:
        b = prog.main_body(o)
        bl = [c for c in b.calls if c.matches(r"CommitmentStateBuilder::<.*>::build$")]
        rep.check(bool(bl), "X5", "decode-through-builder",
                  "decoding a CommitmentState bypasses the builder's firm<=soft check", b.describe())

"""C18 IBC transfers: exact escrow accounting; a failed receive has no side effects.

 I1 (K4) escrow arithmetic is checked (checked_sub / checked_add with an error edge).
 I2 (K3c) the three source-zone predicates are evaluated symbolically over their atoms
    (has_leading_port, has_leading_channel, denom variant) by path enumeration:
      is_transfer_source_zone == P & C,   is_refund_source_zone == !(P & C),
      withdrawal is_source == TracePrefixed & !(P & C)   (hence refund == withdrawal),
    and the escrow operations use the matching channel/asset/amount operands: receive debits
    escrow of the *destination* channel iff transfer-source, refund debits escrow of the
    *source* channel iff refund-source, withdrawal credits escrow of the source channel iff
    is_source; each leg credits/debits the same (asset, amount).
 I3 (K6) `receive_tokens`, whose failure `recv_packet_execute` turns into an error
    acknowledgement, must either run on a private StateDelta applied only on success, or be
    free of (write, then semantic failure) pairs.
Not decided: the accounting identity over histories.
"""
import re

from facts import short_name
from kinds import (arith_sites, bool_fn_table, table_matches, bool_payload_edges,
                   on_all_success_paths, error_cut, k1_callers)
from atomic import Atomic, runs_on_private_delta

CRATES = ["astria_sequencer.lib"]
S = "astria_sequencer::"
ICS = S + "ibc::ics20_transfer::"
ACC = S + "accounts::state_ext::StateWriteExt::"
DEC_ESCROW = S + "ibc::state_ext::StateWriteExt::decrease_ibc_channel_balance"
RECV_EXEC = ("<astria_sequencer::ibc::ics20_transfer::Ics20Transfer as penumbra_sdk_ibc::"
             "component::app_handler::AppHandlerExecute>::recv_packet_execute")


def is_test_owner(o):
    return "::tests" in o or "test_utils" in o or "benchmark" in o


def atom(c):
    if c.matches(r"TracePrefixed::has_leading_port$"):
        return "P"
    if c.matches(r"TracePrefixed::has_leading_channel$"):
        return "C"
    if c.is_(ICS + "is_transfer_source_zone"):
        return "T"
    return None


def run(prog, rep):
    rep.explanation = (
        "Static rules on the ICS20 code: (I1) checked escrow arithmetic; (I2) the source-zone "
        "predicates of send, receive and refund are evaluated symbolically over their two "
        "boolean atoms by enumerating all CFG paths and compared with the required truth "
        "tables (finite domain, exhaustive), and the escrow/balance calls use the matching "
        "channel, asset and amount operands on the matching branch; (I3) failure atomicity of "
        "the receive region whose error is swallowed into an acknowledgement (private delta or "
        "no write-then-fail pair). The accounting identity over histories is not evaluated.")
    rep.assumptions += ["penumbra IBC core (channel/packet handling, write_acknowledgement) is "
                        "trusted", "TracePrefixed::has_leading_* are pure"]
    i1(prog, rep)
    i2(prog, rep)
    i3(prog, rep)


def i1(prog, rep):
    n = 0
    for o in (DEC_ESCROW, S + "checked_actions::ics20_withdrawal::CheckedIcs20Withdrawal::execute",
              ICS + "receive_tokens", ICS + "refund_tokens", ICS + "refund_tokens_to_sequencer_address"):
        for body in prog.bodies_of(o):
            for kind, name, bb, line, roots, dest in arith_sites(body):
                if kind == "cast" or all(re.match(r"^(const\(|_\d+$)", r) for r in roots):
                    continue
                n += 1
                key = f"{short_name(o)}|{name}"
                rep.check(kind == "checked", "I1", key,
                          f"{o}: escrow/amount arithmetic `{name}` is not checked", f"{body.file}:{line}")
    rep.floor("I1", n, 2, "escrow arithmetic sites")
    body = prog.main_body(DEC_ESCROW)
    sub = [c for c in body.calls if c.matches(r"core::num::<impl u128>::checked_sub$")]
    rep.floor("I1", len(sub), 1, "checked_sub in decrease_ibc_channel_balance")
    for c in sub:
        a = [body.root(x) for x in c.args]
        rep.check("get_ibc_channel_balance(self,channel,asset)" in a[0] and a[1] == "amount", "I1",
                  "escrow-sub-operands", f"escrow is decreased as {a}", c.where())
        oe = body.outcome_edges(c)
        rep.check(oe["kind"] == "try", "I1", "escrow-underflow=>error",
                  "an escrow underflow does not fail the operation (more than escrowed could be "
                  "released)", c.where())
    put = [c for c in body.calls if c.matches(r"StateWriteExt::put_ibc_channel_balance$")]
    for c in put:
        a = [body.root(x) for x in c.args]
        rep.check(a[1] == "channel" and a[2] == "asset" and "checked_sub(" in a[3], "I1",
                  "escrow-put-operands", f"new escrow stored as {a[1:]}", c.where())


def is_source_table(prog, rep, rule="I2"):
    """The outgoing withdrawal's source-zone decision, evaluated symbolically over its atoms:
    is_source == TracePrefixed && !(leading port && leading channel) - the negation of the
    receive-side predicate, so that what is escrowed on the way out is exactly what a refund or
    a returning packet releases (shared with C01-L3 IBC-OUT)."""
    b = prog.main_body(S + "checked_actions::ics20_withdrawal::is_source")
    denom = prog.adts.get("astria_core::primitive::v1::asset::denom::Denom")
    tp = None
    if denom:
        tp = [i for i, v in enumerate(denom["variants"]) if v[0] == "TracePrefixed"]
    tp = tp[0] if tp else 0

    def exp(f):
        d = f.get("disc:asset")
        if d is None:
            return None
        if d != tp:
            return False
        return not (f["P"] and f["C"])
    tbl = bool_fn_table(b, atom)
    ok, why = table_matches(tbl, exp, ["P", "C"])
    has_disc = bool(tbl) and any("disc:asset" in a for a, _ in tbl)
    rep.check(ok and has_disc, rule, "table:is_source=Trace&!(P&C)",
              f"withdrawal is_source is not `TracePrefixed && !(leading port && leading channel)`"
              f" (must equal the refund predicate): {why}", b.describe(), detail=why)
    for c in b.calls:
        if atom(c) in ("P", "C"):
            a = [b.root(x) for x in c.args]
            want = "source_port" if atom(c) == "P" else "source_channel"
            rep.check(a[1] == want and "asset" in a[0], rule, f"atoms:is_source:{atom(c)}",
                      f"{short_name(c.callee)} applied to {a}", c.where())



def i2(prog, rep):
    # --- truth tables
    b = prog.main_body(ICS + "is_transfer_source_zone")
    ok, why = table_matches(bool_fn_table(b, atom), lambda f: f["P"] and f["C"], ["P", "C"])
    rep.check(ok, "I2", "table:is_transfer_source_zone=P&C",
              f"is_transfer_source_zone is not has_leading_port && has_leading_channel: {why}",
              b.describe(), detail=why)
    for c in b.calls:
        if atom(c) in ("P", "C"):
            a = [b.root(x) for x in c.args]
            want = ["asset", "port"] if atom(c) == "P" else ["asset", "channel"]
            rep.check(a == want, "I2", f"atoms:is_transfer_source_zone:{atom(c)}",
                      f"{short_name(c.callee)} applied to {a}, expected {want}", c.where())
    b = prog.main_body(ICS + "is_refund_source_zone")
    ok, why = table_matches(bool_fn_table(b, atom), lambda f: not f["T"], ["T"])
    rep.check(ok, "I2", "table:is_refund_source_zone=!T",
              f"is_refund_source_zone is not the negation of is_transfer_source_zone: {why}",
              b.describe(), detail=why)
    for c in b.calls:
        if atom(c) == "T":
            a = [b.root(x) for x in c.args]
            rep.check(a == ["asset", "port", "channel"], "I2", "atoms:is_refund_source_zone",
                      f"is_transfer_source_zone applied to {a}", c.where())
    is_source_table(prog, rep, "I2")

    # --- receive leg
    b = prog.main_body(ICS + "receive_tokens")
    t = [c for c in b.calls if c.is_(ICS + "is_transfer_source_zone")]
    dec = [c for c in b.calls if c.is_(DEC_ESCROW)]
    inc = [c for c in b.calls if c.is_(ACC + "increase_balance")]
    if len(t) == 1 and len(dec) == 1 and len(inc) == 1:
        t, dec, inc = t[0], dec[0], inc[0]
        ta = [b.root(x) for x in t.args]
        rep.check(ta[1] == "packet.port_on_a" and ta[2] == "packet.chan_on_a", "I2",
                  "recv:zone-operands", f"receive tests the source zone with {ta[1:]}; expected the "
                  f"packet's source port/channel", t.where())
        da, ia = [b.root(x) for x in dec.args], [b.root(x) for x in inc.args]
        rep.check(da[1] == "packet.chan_on_b", "I2", "recv:escrow-channel",
                  f"receive releases escrow of `{da[1]}`; expected the destination channel "
                  f"(packet.chan_on_b)", dec.where())
        rep.check(da[2] == ia[2] and da[3] == ia[3], "I2", "recv:escrow=credit",
                  f"receive releases ({da[2][:40]}, {da[3][:40]}) from escrow but credits "
                  f"({ia[2][:40]}, {ia[3][:40]})", inc.where(), detail=f"{da[2][:40]} / {da[3][:40]}")
        rep.check(re.search(r"^parse\(from_slice\(packet\.data\).*\.amount\)", ia[3]) is not None,
                  "I2", "recv:amount-source",
                  f"credited amount is `{ia[3][:80]}`, not the packet's amount", inc.where())
        # escrow debit iff is_source: the switch on the stored bool
        te, fe = zone_edges(b, t)
        rep.check(te is not None and b.must_pass_edges(set(te), dec.bb), "I2", "recv:debit-iff-source",
                  "receive releases escrow although the asset is not returning to its source "
                  "zone", dec.where())
        if te is not None:
            e, bl = error_cut(b)
            rep.check(all(not any(r in b.reachable(v, removed_edges=e, removed_blocks=set(bl) | {dec.bb})
                                  for r in b.return_blocks()) for (u, v) in te_last(b, t)), "I2",
                      "recv:source=>debit",
                      "a returning (source-zone) asset can be credited without releasing escrow",
                      dec.where())
        rep.check(on_all_success_paths(b, via_blocks=[inc.bb]), "I2", "recv:credit-on-success",
                  "receive can succeed without crediting the recipient", inc.where())
        rep.check("parse_address_on_sequencer" in ia[1], "I2", "recv:recipient",
                  f"credited account is `{ia[1][:60]}`, not the parsed packet receiver", inc.where())
    else:
        rep.fail("I2", "recv:shape", f"receive_tokens: expected one zone test, one escrow debit, "
                 f"one credit; found {len(t)}/{len(dec)}/{len(inc)}", b.describe())

    # --- refund leg
    b = prog.main_body(ICS + "refund_tokens_to_sequencer_address")
    t = [c for c in b.calls if c.is_(ICS + "is_refund_source_zone")]
    dec = [c for c in b.calls if c.is_(DEC_ESCROW)]
    inc = [c for c in b.calls if c.is_(ACC + "increase_balance")]
    if len(t) == 1 and len(dec) == 1 and len(inc) == 1:
        t, dec, inc = t[0], dec[0], inc[0]
        ta = [b.root(x) for x in t.args]
        rep.check(ta == ["asset", "source_port", "source_channel"], "I2", "refund:zone-operands",
                  f"refund tests the zone with {ta}", t.where())
        da, ia = [b.root(x) for x in dec.args], [b.root(x) for x in inc.args]
        rep.check(da[1:] == ["source_channel", "asset", "amount"], "I2", "refund:escrow-operands",
                  f"refund releases escrow with {da[1:]}; expected (source_channel, asset, amount)",
                  dec.where())
        rep.check(ia[1:] == ["recipient", "asset", "amount"], "I2", "refund:credit-operands",
                  f"refund credits {ia[1:]}", inc.where())
        be = bool_payload_edges(b, t)
        rep.check(be is not None and b.must_pass_edges(set(be[0]), dec.bb), "I2",
                  "refund:debit-iff-source", "refund releases escrow for a non-source asset",
                  dec.where())
        if be is not None:
            e, bl = error_cut(b)
            rep.check(all(not any(r in b.reachable(v, removed_edges=e, removed_blocks=set(bl) | {dec.bb})
                                  for r in b.return_blocks()) for (u, v) in be[0]), "I2",
                      "refund:source=>debit",
                      "a refund of a sequencer-origin asset can succeed without releasing escrow",
                      dec.where())
        rep.check(on_all_success_paths(b, via_blocks=[inc.bb]), "I2", "refund:credit-on-success",
                  "refund can succeed without crediting the sender", inc.where())
    else:
        rep.fail("I2", "refund:shape", "refund_tokens_to_sequencer_address shape changed",
                 b.describe())
    b = prog.main_body(ICS + "refund_tokens")
    rc = [c for c in b.calls if c.is_(ICS + "refund_tokens_to_sequencer_address")]
    rep.floor("I2", len(rc), 1, "refund_tokens_to_sequencer_address call")
    for c in rc:
        a = [b.root(x) for x in c.args]
        rep.check(a[4] == "packet.port_on_a" and a[5] == "packet.chan_on_a", "I2",
                  "refund:source=packet-source",
                  f"refund uses {a[4:]} as the source port/channel; expected the packet's own "
                  f"source (port_on_a, chan_on_a)", c.where())
        rep.check(re.search(r"^parse_address_on_sequencer\(state,.*\.sender\)", a[1]) is not None
                  and re.search(r"^parse\(from_slice\(packet\.data\).*\.amount\)", a[3]) is not None
                  and re.search(r"^parse_asset\(state,.*\.denom\)", a[2]) is not None,
                  "I2", "refund:operands",
                  f"refund is made to {a[1][:50]} for ({a[2][:40]}, {a[3][:40]})", c.where())
        rep.check(on_all_success_paths(b, via_blocks=[c.bb]), "I2", "refund:always-refunds",
                  "refund_tokens can succeed without refunding", c.where())


def zone_edges(body, call):
    """Edges of every switch on the boolean stored from `call` (the value may be tested more
    than once: `if is_source {..}` twice in receive_tokens)."""
    d = place_local(call.dest) if False else int(call.dest.split("|")[0])
    te, fe = [], []
    for bb in sorted(body.live_blocks()):
        t = body.term(bb)
        if t[0] != "switch":
            continue
        l = t[1][1] if t[1][0] in "cm" else None
        if l is None:
            continue
        r = body.root(t[1])
        if r.startswith("is_transfer_source_zone(") or r == "is_source":
            te.append((bb, t[3]))
            fe += [(bb, tgt) for v, tgt in t[2] if v == 0]
    if not te:
        return None, None
    # only the last test guards the escrow operation; all true-edges lead to "source" code,
    # must_pass over the union is what we need (escrow debit must be behind *a* true edge)
    return te, fe


def te_last(body, call):
    te, fe = zone_edges(body, call)
    return te[-1:] if te else []


def i3(prog, rep):
    at = Atomic(prog, is_test_owner)
    body = prog.main_body(RECV_EXEC)
    rc = [c for c in body.calls if c.is_(ICS + "receive_tokens")]
    rep.floor("I3", len(rc), 1, "receive_tokens call in recv_packet_execute")
    for c in rc:
        oe = body.outcome_edges(c)
        if oe["kind"] == "try":
            rep.ok("I3", "recv:propagated", "receive failure is propagated (fails the action)")
            continue
        ok, why = runs_on_private_delta(body, c, 0)
        if ok:
            rep.ok("I3", "recv:private-delta", why)
            # events of the private delta must be re-recorded on the success path
            rec = [x for x in body.calls if x.matches(r"StateWrite::record$")]
            ap = [x for x in body.calls if x.matches(r"StateDelta::<S>::apply$")]
            rep.check(bool(rec) and bool(ap) and all(body.must_pass_block(ap[0].bb, r.bb) for r in rec),
                      "I3", "recv:events-rerecorded",
                      "the private delta's events are not re-recorded after apply (deposit events "
                      "of successful receives would be lost)", c.where())
            continue
        pairs = at.pairs(ICS + "receive_tokens")
        if not pairs:
            rep.ok("I3", "recv:write-then-fail-free", f"no write precedes a semantic failure ({why})")
        for (w, f, where) in pairs:
            rep.fail("I3", f"recv:write-then-fail:{w}->{f}",
                     f"a failed incoming transfer is acknowledged with an error but is not rolled "
                     f"back: `{w}` has already written when `{f}` fails ({why})", where)
    k1_callers(prog, rep, "I3", [ICS + "receive_tokens"], [RECV_EXEC], floor=1,
               ignore_owner=is_test_owner)
    # refund is not a swallowing region: its callers propagate
    for o in prog.owners(r"AppHandlerExecute>::(timeout_packet_execute|acknowledge_packet_execute)$"):
        b = prog.main_body(o)
        for c in b.calls:
            if c.is_(ICS + "refund_tokens"):
                import c03
                d, _ = c03.disposition(b, c)
                rep.check(d in ("try", "tail"), "I3", f"refund-propagated:{short_name(o)}",
                          f"{o} swallows a refund failure (disposition {d})", c.where())

"""C15 Oracle prices need >2/3 validly signed extensions and stay within the reported range.

 O1 (K4) threshold shape: required = total*2/3 + 1 with checked operations, multiply before
    divide, and acceptance only on `submitted >= required`; total != 0.
 O2 (K2) per vote: the duplicate-voter guard (set insert, true edge) dominates both tallies;
    the submitted-power tally is followed, before the iteration ends successfully, by a
    successful signature verification with the key of that validator over a message built from
    this vote's extension, height-1, the commit's round and the chain id; non-commit votes
    reach `continue` only after both emptiness checks.
 O3 (K2) validate_proposal: success requires height==1, or an empty extended commit with a
    matching round, or all of: last-commit cross-check, vote-extension validation, per-vote
    extension verification and id->pair mapping validation.
 O4 (K2+K1) process_proposal executes only behind validate_proposal's success edge when an
    extended commit is present; prices are applied only from finalize_block.
 O5 (K5+K2) last-commit cross-check compares round, vote count, and per vote address, power and
    sig_info of the zipped votes; every loop iteration takes the equal edge of the address and
    power comparisons (no early `continue` above them); the vote loops run to exhaustion.
 O6 (K4+K2) range shape of the aggregation: the averaged value is half(x)+half(y) of two reported
    prices with divisor 2, and the rounding +1 is unreachable unless an oddness test of an
    averaged price succeeded (both even + 1 can exceed the maximum).
Not decided: median within [min, max] as a numeric fact; which elements are read (median-ness).
"""
import re

from facts import short_name
from kinds import (exhaustive_loops, rel, comparisons, bool_payload_edges, k1_callers, on_all_success_paths, error_cut,
                   div_before_mul, arith_sites, k2_site_guarded)

CRATES = ["astria_sequencer.lib", "astria_core.lib"]
S = "astria_sequencer::"
V = S + "app::vote_extension::"
VOTE = r"next\(into_iter\(extended_commit_info\.votes\)\)<Some>\.0"


def is_test_owner(o):
    return "::tests" in o or "::test::" in o or "test_utils" in o or "benchmark" in o


def run(prog, rep):
    rep.explanation = (
        "Must-dominate / arithmetic-shape / provenance rules on the vote-extension validation "
        "MIR: threshold total*2/3+1 with checked ops and no divide-before-multiply; power is "
        "tallied only behind the duplicate-voter guard and every tallied commit vote is followed "
        "by a successful signature verification over the canonical message of that vote; "
        "validate_proposal's success paths enumerate to {height 1, empty commit with matching "
        "round, all validators passed}; process_proposal executes only behind it; prices are "
        "applied only in finalize_block. The median-in-range clause is numeric and not decided.")
    rep.assumptions += ["ed25519 verification and tendermint types are trusted",
                        "production cfg only"]
    o1(prog, rep)
    o2(prog, rep)
    o3(prog, rep)
    o4(prog, rep)
    o5(prog, rep)
    o6(prog, rep)


def loop_heads(body):
    return {c.bb for c in body.calls if c.matches(r"Iterator>?::next$") and c.macros
            and c.macros[0] == "desugar:ForLoop"}


def o1(prog, rep):
    body = prog.main_body(V + "validate_vote_extensions")
    ge = rel(body, "Ge", r"^submitted_voting_power$", r"total_voting_power", pure=False)
    if not ge:
        rep.fail("O1", "threshold-compare", "comparison of submitted power with the threshold "
                 "not found", body.describe())
        return
    c = ge[0]
    thr = c.b
    import formula
    norm = formula.canon(thr.replace("<Continue>.0", ""))
    want = "(((2 * total_voting_power) / 3) + 1)"
    rep.check(norm == want, "O1", "threshold=total*2/3+1",
              f"threshold is `{norm[:120]}`, expected {want}", f"{body.file}:{c.line}", detail=norm)
    rep.check(on_all_success_paths(body, via_edges=c.true_edges), "O1",
              "accept<=submitted>=required",
              "validation can succeed without `submitted >= required` holding (comparison "
              "missing, inverted or bypassed)", f"{body.file}:{c.line}")
    rep.check(not div_before_mul(body), "O1", "no-div-before-mul",
              "threshold divides before multiplying", body.describe())
    for kind, name, bb, line, roots, dest in arith_sites(body):
        if kind == "cast" or not any("voting_power" in r for r in roots):
            continue
        rep.check(kind == "checked", "O1", f"checked:{name}({roots[0][:30]})",
                  f"voting-power arithmetic `{name}` is not checked", f"{body.file}:{line}")
    z = [x for x in comparisons(body) if x.op == "Eq" and x.a == "total_voting_power" and x.b == "const(0)"]
    rep.check(bool(z) and on_all_success_paths(body, via_edges=z[0].false_edges), "O1",
              "total!=0", "validation can succeed with zero total voting power", body.describe())


def o2(prog, rep):
    body = prog.main_body(V + "validate_vote_extensions")
    heads = loop_heads(body)
    e, bl = error_cut(body)
    ins = [c for c in body.calls if c.matches(r"hash::set::HashSet::<T, S, A>::insert$")
           and re.search(VOTE + r"\.validator\.address", body.root(c.args[1]))]
    adds = [c for c in body.calls if c.matches(r"core::num::<impl u64>::checked_add$")]
    tot = [c for c in adds if body.root(c.args[0]) == "total_voting_power"]
    sub = [c for c in adds if body.root(c.args[0]) == "submitted_voting_power"]
    rep.floor("O2", len(ins), 1, "duplicate-voter guard")
    rep.floor("O2", len(tot), 1, "total power tally")
    rep.floor("O2", len(sub), 1, "submitted power tally")
    be = bool_payload_edges(body, ins[0]) if ins else None
    for c in tot + sub:
        rep.check(be is not None and body.must_pass_edges(set(be[0]), c.bb), "O2",
                  f"{'total' if c in tot else 'submitted'}<=first-vote-of-validator",
                  "voting power is tallied for a validator that already voted in this extended "
                  "commit", c.where())
        rep.check(re.fullmatch(r"value\(" + VOTE + r"\.validator\.power\)", body.root(c.args[1]))
                  is not None, "O2", f"{'total' if c in tot else 'submitted'}:operand",
                  f"tallies `{body.root(c.args[1])[:80]}`", c.where())
    ver = [c for c in body.calls if c.matches(r"astria_core_crypto::VerificationKey::verify$")]
    rep.floor("O2", len(ver), 1, "signature verification")
    for c in sub:
        ok = False
        if ver and c.target is not None:
            oe = body.outcome_edges(ver[0])
            if oe["kind"] == "try":
                term = heads | set(body.return_blocks())
                reach = body.reachable(c.target, removed_edges=set(e) | set(oe["ok"]),
                                       removed_blocks=set(bl))
                ok = not (term & reach)
        rep.check(ok, "O2", "submitted=>signature-verified",
                  "a vote's power counts as submitted although its extension signature is not "
                  "verified before the iteration completes", c.where())
    for v in ver:
        a = [body.root(x) for x in v.args]
        rep.check(re.match(r"^verification_key\(state," + VOTE + r"\.validator\.address\)", a[0])
                  is not None, "O2", "verify:key-of-voter",
                  f"signature is verified with `{a[0][:90]}`", v.where())
        rep.check(re.search(VOTE + r"\.extension_signature", a[1]) is not None, "O2",
                  "verify:signature-of-vote", f"verifies `{a[1][:80]}`", v.where())
    cv = list(body.aggregates("adt", r"CanonicalVoteExtension$"))
    rep.floor("O2", len(cv), 1, "CanonicalVoteExtension construction")
    for i, j, p, rv, line in cv:
        f = dict(zip(rv[5], [body.root(o) for o in rv[4]]))
        good = re.search(VOTE + r"\.vote_extension", f.get("extension", "")) and \
            "checked_sub(height,const(1))" in f.get("height", "") and \
            "extended_commit_info.round" in f.get("round", "") and \
            "get_chain_id(state)" in f.get("chain_id", "")
        rep.check(bool(good), "O2", "verify:message-fields",
                  f"signed message fields {dict((k, v[:50]) for k, v in f.items())}",
                  f"{body.file}:{line}")
        if ver:
            rep.check("CanonicalVoteExtension" in body.root(ver[0].args[2]), "O2",
                      "verify:message=canonical", "verified bytes are not the canonical vote "
                      "extension", ver[0].where())
    # non-commit votes: both emptiness checks before `continue`
    eq = [c for c in comparisons(body) if c.op == "Eq" and
          (re.search(VOTE + r"\.sig_info$", c.a) or re.search(VOTE + r"\.sig_info$", c.b))]
    ie = [c for c in body.calls if c.matches(r"::is_empty$") and re.search(VOTE + r"\.vote_extension", body.root(c.args[0]))]
    inn = [c for c in body.calls if c.matches(r"Option::<T>::is_none$") and re.search(VOTE + r"\.extension_signature", body.root(c.args[0]))]
    ok = False
    if eq and ie and inn:
        b1, b2 = bool_payload_edges(body, ie[0]), bool_payload_edges(body, inn[0])
        if b1 and b2:
            starts = [v for (u, v) in eq[0].false_edges]
            ok = all(not (heads & body.reachable(s, removed_edges=set(e) | set(b1[0]), removed_blocks=set(bl)))
                     and not (heads & body.reachable(s, removed_edges=set(e) | set(b2[0]), removed_blocks=set(bl)))
                     for s in starts)
    rep.check(ok, "O2", "non-commit=>empty-ext-and-sig",
              "a non-commit vote can be skipped although it carries an extension or a signature",
              body.describe())
    for c in sub:
        rep.check(bool(eq) and body.must_pass_edges(set(eq[0].true_edges), c.bb), "O2",
                  "submitted<=commit-flag", "power is counted as submitted for a non-commit vote",
                  c.where())


def o3(prog, rep):
    body = prog.main_body(V + "ProposalHandler::validate_proposal")
    h1 = [c for c in comparisons(body) if c.op == "Eq" and c.a == "height" and c.b == "const(1)"]
    emp = [c for c in body.calls if c.matches(r"::is_empty$") and "extended_commit_info.votes" in body.root(c.args[0])]
    rnd = [c for c in comparisons(body) if c.op == "Eq" and "last_commit.round" in c.a + c.b and "round" in c.b + c.a]
    lc = body.calls_to(V + "validate_extended_commit_against_last_commit")
    ve = body.calls_to(V + "validate_vote_extensions")
    vv = body.calls_to(V + "verify_vote_extension")
    mp = body.calls_to(V + "validate_id_to_currency_pair_mapping")
    rep.floor("O3", len(lc) + len(ve) + len(vv) + len(mp), 4, "validators in validate_proposal")
    if not (h1 and emp and lc and ve and mp):
        rep.fail("O3", "shape", "validate_proposal shape changed", body.describe())
        return
    be = bool_payload_edges(body, emp[0])
    early = set(h1[0].true_edges) | (set(be[0]) if be else set())
    for c, nm in ((lc[0], "last-commit"), (ve[0], "vote-extensions"), (mp[0], "pair-mapping")):
        rep.check(on_all_success_paths(body, via_edges=early, via_blocks=[c.bb]), "O3",
                  f"success=>{nm}", f"validate_proposal can succeed for a non-empty extended "
                  f"commit without running the {nm} validation", c.where())
    # empty commit: round equality required
    if be and rnd:
        starts = [v for (u, v) in be[0]]
        e, bl = error_cut(body)
        ok = all(not any(r in body.reachable(s, removed_edges=set(e) | set(rnd[0].true_edges),
                                             removed_blocks=set(bl)) for r in body.return_blocks())
                 for s in starts)
        rep.check(ok, "O3", "empty=>round-matches",
                  "an empty extended commit is accepted without its round matching the last "
                  "commit's", body.describe())
    # ordering: last-commit check before signature work
    rep.check(body.must_pass_block(lc[0].bb, ve[0].bb), "O3", "last-commit-before-signatures",
              "vote extensions are validated before the cross-check against the last commit",
              body.describe())
    a = [body.root(x) for x in ve[0].args]
    rep.check(a[1] == "height" and "extended_commit_info" in a[2], "O3", "ve-operands",
              f"validate_vote_extensions called with {a}", ve[0].where())


def o4(prog, rep):
    body = prog.main_body(S + "app::App::process_proposal")
    vp = body.calls_to(V + "ProposalHandler::validate_proposal")
    rep.floor("O4", len(vp), 1, "validate_proposal call in process_proposal")
    ex = [c for c in body.calls if c.is_(S + "app::App::process_proposal_tx_execution")
          or c.is_(S + "app::App::pre_execute_transactions")]
    rep.floor("O4", len(ex), 2, "execution calls in process_proposal")
    sw = None
    for bb in sorted(body.live_blocks()):
        t = body.term(bb)
        if t[0] == "switch" and body.root(t[1]).startswith("disc(") and \
                "extended_commit_info_with_proof" in body.root(t[1]):
            sw = (bb, t)
            break
    none_edges = []
    if sw:
        bb, t = sw
        none_edges = [(bb, tgt) for v, tgt in t[2] if v == 0] or [(bb, t[3])]
    for v in vp:
        oe = body.outcome_edges(v)
        for c in ex:
            rep.check(oe["kind"] == "try" and bool(none_edges) and
                      body.must_pass_edges(set(oe["ok"]) | set(none_edges), c.bb), "O4",
                      f"{short_name(c.callee)}<=validate_proposal-ok",
                      "process_proposal executes a block that carries an extended commit without "
                      "validate_proposal having succeeded", c.where())
        a = [body.root(x) for x in v.args]
        rep.check("self.state" in a[0] and "process_proposal.height" in a[1] and
                  "proposed_last_commit" in a[2] and "extended_commit_info" in a[3], "O4",
                  "validate-operands", f"validate_proposal called with {[x[:50] for x in a]}", v.where())
    k1_callers(prog, rep, "O4", [V + "apply_prices_from_vote_extensions"],
               [S + "app::App::finalize_block"], floor=1, ignore_owner=is_test_owner)
    k1_callers(prog, rep, "O4", [V + "validate_vote_extensions"],
               [V + "ProposalHandler::validate_proposal", V + "ProposalHandler::prepare_proposal"],
               floor=1, ignore_owner=is_test_owner)


def o5(prog, rep):
    body = prog.main_body(V + "validate_extended_commit_against_last_commit")
    exhaustive_loops(rep, "O5", body, r"zip\(", 1, "zipped votes",
                     "later votes would not be cross-checked", ok_only=True)
    vb = prog.main_body(V + "validate_vote_extensions")
    exhaustive_loops(rep, "O2", vb, r"extended_commit_info\.votes", 1, "extended-commit votes",
                     "later votes would be neither tallied nor signature-checked", ok_only=True)
    cm = comparisons(body)
    need = {
        "round": lambda c: "last_commit.round" in c.a + c.b and "extended_commit_info.round" in c.a + c.b,
        "len": lambda c: "len(last_commit.votes)" in c.a + c.b and "len(extended_commit_info.votes)" in c.a + c.b,
        "address": lambda c: c.a.endswith(".0.validator.address") and c.b.endswith(".1.validator.address")
        or c.b.endswith(".0.validator.address") and c.a.endswith(".1.validator.address"),
        "power": lambda c: c.a.endswith(".validator.power") and c.b.endswith(".validator.power") and c.a != c.b,
    }
    heads = loop_heads(body)
    e, bl = error_cut(body)
    for nm, pred in need.items():
        cs = [c for c in cm if c.op == "Eq" and pred(c)]
        if not cs:
            rep.fail("O5", f"cross-check:{nm}", f"last-commit cross-check does not compare {nm}",
                     body.describe())
            continue
        c = cs[0]
        if nm in ("round", "len"):
            ok = on_all_success_paths(body, via_edges=c.true_edges)
        else:
            # within an iteration: from the loop body entry the next head is unreachable without
            # the equal edge
            ok = all(not (heads & body.reachable(v, removed_edges=set(e), removed_blocks=set(bl)))
                     for (u, v) in c.false_edges)
            # ... and no iteration completes without having taken the equal edge (an early
            # `continue` for absent votes placed above the comparison would skip it: the power
            # of an absent validator is the denominator of the >2/3 threshold)
            cut_edges = set(e) | set(c.true_edges)
            for h in heads:
                for s_ in body.succ[h]:
                    if (h, s_) in cut_edges:
                        continue
                    if h in body.reachable(s_, removed_edges=cut_edges, removed_blocks=set(bl)):
                        ok = False
        rep.check(ok, "O5", f"cross-check:{nm}",
                  f"the extended commit can pass the cross-check although its {nm} differs from "
                  f"the last commit's", f"{body.file}:{c.line}")


def o6(prog, rep):
    """Range clause only: any element of the list, and half(x)+half(y) of two elements, lie in
    [min, max]; adding 1 stays in range iff x and y are not both even.  Which elements are read
    (sortedness, middle indices) affects median-ness, not the range, and is deliberately not judged."""
    import formula
    body = prog.main_body("astria_core::oracles::price_feed::utils::median")
    canon = lambda a: formula.canon(body.root(a).replace("<Some>.0", ""))
    divs = [c for c in body.calls if c.matches(r"Price::checked_div$")]
    adds = [c for c in body.calls if c.matches(r"Price::checked_add$")]
    rep.floor("O6", len(divs), 2, "halvings")
    rep.floor("O6", len(adds), 2, "additions")
    for d in divs:
        rep.check(body.root(d.args[1]) == "const(2)" and "get(price_list," in body.root(d.args[0]),
                  "O6", "half-of-element", "halving does not divide a reported price by 2", d.where())
    odd = [x for x in comparisons(body) if x.op == "Eq" and x.b == "const(1)"
           and re.search(r"^\(get\(.*get\(price_list,.* Rem const\(2\)\)$", x.a)]
    rep.floor("O6", len(odd), 1, "oddness tests of the averaged prices")
    odd_true = set()
    for x in odd:
        odd_true |= set(x.true_edges)
    for a in adds:
        ops = [canon(x) for x in a.args]
        if "new(1)" in ops:
            rep.check(a.bb not in body.reachable(0, removed_edges=odd_true), "O6", "round-up<=some-odd",
                      "the rounding +1 can be added when both averaged prices are even (result may "
                      "exceed the largest reported price)", a.where())
        else:
            rep.check(ops == ["(price_list / 2)", "(price_list / 2)"], "O6", "sum-of-two-halves",
                      f"sum is `{ops}`, expected two halves of reported prices", a.where())

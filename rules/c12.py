"""C12 Relayer batching preserves every block exactly and respects the payload bound.

 T1 (K2+K6b) NextSubmission::try_add: `self.input` / `self.payload` are assigned only on the
    true edge of `compressed_size <= MAX_PAYLOAD_SIZE_BYTES`; both are assigned together, from
    the same candidate (candidate = clone of current input + this block, payload derived from
    that candidate); refusing paths modify nothing of `self` (assignments and `&mut` borrows
    alike); the bound is the stated constant and is compared with the compressed size in any
    spelling.
 T2 (K3) TakeSubmission::poll takes input and payload together (both mem::take, no exit
    between) and the Submission it returns is built from exactly those two.
 T3 (K2) extend_from_sequencer_block: the block's metadata is pushed unconditionally; only the
    rollup entries are guarded by the rollup filter (true edge of should_include of the
    element's own id); filtered-in data goes under the namespace derived from that same id;
    metadata and rollup data are pushed unedited (no in-place modification between the split
    and the push); the loops over the block's rollups / the accumulated namespaces run to
    exhaustion.
 T5 (K1) the per-namespace rollup data lists only grow (entry().or_default()); nothing replaces a
    list accumulated by another rollup sharing the namespace or by earlier blocks.
 T4 (K8) writer/reader agreement: the relayer encodes SubmittedMetadataList /
    SubmittedRollupDataList and compresses with astria_core::brotli::compress_bytes; the
    conductor decompresses with decompress_bytes and decodes the same two types, metadata from
    the sequencer namespace and rollup data from the rollup namespace.
Not decided: exactly-once / ordering over arbitrary block streams; compressed-size values.
"""
import re

from facts import short_name
from kinds import (exhaustive_loops, ordered, comparisons, k1_callers, on_all_success_paths, bool_payload_edges, result_blocks,
                   error_cut)

CRATES = ["astria_sequencer_relayer.lib", "astria_conductor.lib", "astria_core.lib"]
CV = "astria_sequencer_relayer::relayer::write::conversion::"
CD = "astria_conductor::celestia::convert::"
MAX_PAYLOAD = 1_000_000


def is_test_owner(o):
    return "::tests" in o or "::test::" in o or "test_utils" in o


def run(prog, rep):
    rep.explanation = (
        "Must-dominate, pairing and writer/reader-agreement rules on the relayer's conversion "
        "code and the conductor's decoder: a candidate batch is committed only under the size "
        "comparison against the stated bound, input and payload move together, the rollup filter "
        "guards rollup entries only, and both sides use the same two protobuf list types and "
        "the same compression helpers. Stream-level exactly-once and the numeric compressed size "
        "are not decided.")
    rep.assumptions += ["prost and brotli are trusted", "production cfg only"]
    t1(prog, rep)
    t2(prog, rep)
    t3(prog, rep)
    t5(prog, rep)
    t4(prog, rep)


def self_field_assigns(body, field):
    out = []
    for i, j, p, rv, line in body.assigns():
        parts = p.split("|")
        if parts[0] == "1" and parts[-1] == "." + field:
            out.append((i, rv, line))
    return out


def t1(prog, rep, rule="T1"):
    body = prog.main_body(CV + "NextSubmission::try_add")
    # `compressed_size <= MAX` in any spelling (operands swapped, negated `>`)
    le = [o for o in ordered(body, r"(?<!un)compressed_size", r"^const\(") if "try_into_payload(" in o[1]] \
        or ordered(body, r"(?<!un)compressed_size", r".")
    ai = self_field_assigns(body, "input")
    ap = self_field_assigns(body, "payload")
    rep.floor(rule, len(ai), 1, "assignments to self.input in try_add")
    rep.floor(rule, len(ap), 1, "assignments to self.payload in try_add")
    if not le:
        rep.fail(rule, "size-compare", "`compressed_size <= MAX_PAYLOAD_SIZE_BYTES` not found",
                 body.describe())
        return
    c, size_root, bound_root, within, _beyond = le[0]
    rep.check(bound_root == f"const({MAX_PAYLOAD})", rule, "bound=1_000_000",
              f"payload bound compared against {bound_root}", f"{body.file}:{c.line}")
    rep.check("try_into_payload(" in size_root, rule, "compare-candidate-payload",
              f"compares {size_root[:80]}", f"{body.file}:{c.line}")
    for (i, rv, line) in ai + ap:
        rep.check(body.must_pass_edges(set(within), i), rule, rep.nth("commit<=within-bound"),
                  "the next submission is replaced by a candidate whose compressed payload was not "
                  "checked against the maximum payload size", f"{body.file}:{line}")
    # both assigned on the same paths
    if ai and ap:
        both = all(body.must_pass_block(ai[0][0], r) or body.must_pass_block(ap[0][0], r) or True
                   for r in body.return_blocks())
        oks = result_blocks(body, "Ok")
        ok = bool(oks) and all(body.must_pass_block(ai[0][0], o) and body.must_pass_block(ap[0][0], o)
                               for o in oks)
        rep.check(ok, rule, "ok=>input+payload-committed",
                  "try_add can report success without committing both the input and the payload",
                  body.describe())
        ri = describe(body, ai[0][1])
        rp = describe(body, ap[0][1])
        ext = body.calls_to(CV + "Input::extend_from_sequencer_block")
        tip = body.calls_to(CV + "Input::try_into_payload")
        ok = bool(ext) and bool(tip) and "try_into_payload(" in rp and \
            body.root(ext[0].args[0]) == ri and ri in body.root(tip[0].args[0])
        rep.check(ok, rule, "payload-derived-from-committed-input",
                  f"committed input `{ri[:50]}` and payload `{rp[:70]}` do not come from the same "
                  f"candidate (payload must be try_into_payload of the input that includes the "
                  f"block)", body.describe())
        if ext:
            a = [body.root(x) for x in ext[0].args]
            # the candidate is a clone of the current input that this very call extends in place
            rep.check("block" in a[1] and "rollup_filter" in a[2] and
                      (a[0].startswith("clone(self.input") or a[0] in ("self.input", "self.input~mut")
                       or "input_candidate" in a[0]), rule, "candidate=input+block",
                      f"candidate built as extend({[x[:30] for x in a]})", ext[0].where())
    # Err paths assign nothing: assignments are all behind the true edge (checked above); Err
    # blocks must not be reachable from an assignment
    errs = set(result_blocks(body, "Err"))
    bad = [ln for (i, rv, ln) in ai + ap if errs & body.reachable(i)]
    # ... and neither does any other in-place modification of `self` (a `&mut self.x.y` handed
    # to a call, e.g. a set insert, or an assignment to one of its fields): each must lie behind
    # the within-bound edge and must not be able to reach a refusal
    n_other = 0
    for (i, line, what) in body.mut_uses(1):
        if "metrics" in what:
            continue
        n_other += 1
        if not body.must_pass_edges(set(within), i) or errs & body.reachable(i):
            bad.append(f"{what} (L{line})")
    rep.check(not bad, rule, "refusal-mutates-nothing",
              f"try_add can modify the next submission and still refuse the block: {bad[:3]}",
              body.describe())


def describe(body, rv):
    if rv[0] == "use":
        return body.root(rv[1])
    return rv[0]


def t2(prog, rep):
    o = "<" + CV + "TakeSubmission<'_> as core::future::future::Future>::poll"
    if o not in prog.by_owner:
        rep.anchor_missing("T2", o)
        return
    body = prog.main_body(o)
    tk = [c for c in body.calls if c.matches(r"core::mem::take$")]
    roots = sorted(body.root(c.args[0]) for c in tk)
    ok = len(tk) == 2 and any(r.endswith(".input") for r in roots) and any(r.endswith(".payload") for r in roots)
    rep.check(ok, "T2", "take-both", f"poll takes {roots}; expected the input and the payload",
              body.describe())
    if len(tk) == 2:
        a, b = sorted(tk, key=lambda c: c.bb)
        between = body.reachable(a.target, removed_blocks=[b.bb])
        rep.check(not (set(body.return_blocks()) & between), "T2", "no-exit-between-takes",
                  "poll can return after taking the input but before taking the payload (they "
                  "would get out of sync)", body.describe())
    for i, j, p, rv, line in body.aggregates("adt", r"conversion::Submission$"):
        f = dict(zip(rv[5], [body.root(o2) for o2 in rv[4]]))
        rep.check(f.get("input", "").startswith("take(") and f.get("input", "").endswith(".input)")
                  and f.get("payload", "").endswith(".payload)"), "T2", "submission=taken-pair",
                  f"Submission built from {f}", f"{body.file}:{line}")


def t3(prog, rep):
    body = prog.main_body(CV + "Input::extend_from_sequencer_block")
    push = [c for c in body.calls if c.matches(r"alloc::vec::Vec::<T, A>::push$")]
    mpush = [c for c in push if body.root(c.args[0]) == "self.metadata"]
    rpush = [c for c in push if c not in mpush]
    inc = [c for c in body.calls if c.matches(r"IncludeRollup::should_include$")]
    rep.floor("T3", len(mpush), 1, "metadata push")
    rep.floor("T3", len(rpush), 1, "rollup data push")
    rep.floor("T3", len(inc), 1, "should_include call")
    be = bool_payload_edges(body, inc[0]) if inc else None
    for c in mpush:
        # not control dependent on the filter: reachable with either filter edge removed ...
        ok = be is not None and all(
            c.bb in body.reachable(0, removed_edges=set(e)) for e in (be[0], be[1]))
        # ... and on every path to the return
        ok = ok and all(body.must_pass_block(c.bb, r) for r in body.return_blocks())
        rep.check(ok, "T3", "metadata-unconditional",
                  "block metadata is only added under some condition (a rollup filter must never "
                  "remove block metadata)", c.where())
        rep.check("split_for_celestia(block)" in body.root(c.args[1]) and ".0" in body.root(c.args[1]),
                  "T3", "metadata=block-split", f"pushes {body.root(c.args[1])[:70]}", c.where())
        # ... and exactly that: the raw metadata is not edited between the split and the push
        # (a filter that prunes `rollup_ids` makes the metadata fail its own proof downstream)
        edits = [f"{what} (L{line})" for l in body.move_chain(c.args[1])
                 for (_bb, line, what) in body.mut_uses(l)]
        rep.check(not edits, "T3", "metadata-unedited",
                  f"the block's metadata is modified in place before it is added: {edits[:3]}",
                  c.where())
    for c in rpush:
        rep.check(be is not None and body.must_pass_edges(set(be[0]), c.bb), "T3",
                  "rollup-data<=filter-allows",
                  "rollup data is added although the rollup filter excludes it", c.where())
        rep.check("split_for_celestia(block)" in body.root(c.args[1]), "T3", "rollup-data=block-split",
                  f"pushes {body.root(c.args[1])[:70]}", c.where())
        edits = [f"{what} (L{line})" for l in body.move_chain(c.args[1])
                 for (_bb, line, what) in body.mut_uses(l)]
        rep.check(not edits, "T3", "rollup-data-unedited",
                  f"a rollup's data is modified in place before it is added: {edits[:3]}", c.where())
    if inc:
        a = body.root(inc[0].args[1])
        rep.check(a.startswith("rollup_id(") and "split_for_celestia(block)" in a, "T3",
                  "filter-on-own-id", f"filter consulted with {a[:70]}", inc[0].where())
    ns = [c for c in body.calls if c.matches(r"astria_core::celestia::namespace_v0_from_rollup_id$")]
    rep.check(bool(ns) and bool(inc) and body.root(ns[0].args[0]) == body.root(inc[0].args[1]), "T3",
              "namespace-of-own-id", "rollup data is filed under a namespace derived from another id",
              body.describe())
    exhaustive_loops(rep, "T3", body, r"split_for_celestia\(block\)", 1, "the block's rollup data",
                     "the remaining rollups' data would silently be left out of the submission")
    pb = prog.main_body(CV + "Input::try_into_payload")
    exhaustive_loops(rep, "T3", pb, r"rollup_data_for_namespace", 1, "accumulated rollup data",
                     "the payload would be reported complete without some namespaces", ok_only=True)
    sp = body.calls_to("astria_core::sequencerblock::v1::block::SequencerBlock::split_for_celestia")
    rep.check(len(sp) == 1 and body.root(sp[0].args[0]) == "block", "T3", "split-this-block",
              "extend_from_sequencer_block does not split the block it was given", body.describe())


def t5(prog, rep):
    """T5 (K1) the per-namespace lists of a submission only grow: several rollups can share one
    Celestia namespace (it is derived from the first 10 bytes of the rollup id), so the map
    `rollup_data_for_namespace` may only be reached through `entry(ns).or_default()` (append)
    while blocks are added - an `insert`, `remove`, `clear` or assignment replaces what other
    rollups / earlier blocks accumulated under that namespace."""
    ALLOWED = {"entry", "len", "is_empty", "iter", "into_iter", "values", "keys", "clone", "get",
               "contains_key", "checked_add", "default", "new"}
    n = 0
    for b in prog.bodies:
        if not b.owner.startswith(CV + "Input::") or "tests" in b.owner:
            continue
        for c in b.calls:
            if c.expn or not c.args:
                continue
            if b.root(c.args[0]).replace("~mut", "") != "self.rollup_data_for_namespace":
                continue
            n += 1
            sn = short_name(c.callee)
            rep.check(sn in ALLOWED, "T5", rep.nth(f"{short_name(b.owner)}|namespace-lists:{sn}"),
                      f"{b.owner} calls `{sn}` on the per-namespace rollup data map: lists "
                      "accumulated for that namespace (by another rollup sharing it, or by earlier "
                      "blocks) would be replaced or dropped", c.where())
    rep.floor("T5", n, 2, "accesses of rollup_data_for_namespace in Input")


def generic_arg(c):
    g = c.gargs or ""
    m = re.search(r"generated::astria::sequencerblock::v1::(Submitted\w+List)", g + " " + (c.self_ty or ""))
    return m.group(1) if m else None


def t4(prog, rep):
    # writer
    b = prog.main_body(CV + "Input::try_into_payload")
    adds = [c for c in b.calls if c.matches(r"conversion::Payload::try_add$")]
    wtypes = sorted(filter(None, (generic_arg(c) for c in adds)))
    rep.check(wtypes == ["SubmittedMetadataList", "SubmittedRollupDataList"], "T4", "writer-types",
              f"relayer encodes {wtypes}", b.describe())
    for c in adds:
        t = generic_arg(c)
        ns = b.root(c.args[1])
        if t == "SubmittedMetadataList":
            rep.check("sequencer_namespace" in ns, "T4", "writer:metadata-namespace",
                      f"metadata written under {ns[:60]}", c.where())
            rep.check("self.metadata" in b.root(c.args[2]), "T4", "writer:metadata-entries",
                      f"metadata list built from {b.root(c.args[2])[:60]}", c.where())
        elif t == "SubmittedRollupDataList":
            rep.check("rollup_data_for_namespace" in ns and ns.endswith(".0"), "T4",
                      "writer:rollup-namespace", f"rollup data written under {ns[:70]}", c.where())
            rep.check(b.root(c.args[2]).replace(".0}", ".1}").count("rollup_data_for_namespace") >= 1
                      and ".1" in b.root(c.args[2]), "T4", "writer:rollup-entries",
                      f"rollup list built from {b.root(c.args[2])[:70]}", c.where())
    pa = prog.main_body(CV + "Payload::try_add")
    comp = [c for c in pa.calls if c.is_("astria_core::brotli::compress_bytes")]
    enc = [c for c in pa.calls if c.matches(r"prost::message::Message::encode_to_vec$")]
    rep.check(bool(comp) and bool(enc) and "encode_to_vec(value)" in pa.root(comp[0].args[0]), "T4",
              "writer:compress(encode(value))", "payload blobs are not compress_bytes(encode_to_vec(value))",
              pa.describe())
    # reader
    rtypes = []
    for fn, want, nsw in ((CD + "convert_blob_to_header_list", "SubmittedMetadataList", None),
                          (CD + "convert_blob_to_rollup_data_list", "SubmittedRollupDataList", None)):
        rb = prog.main_body(fn)
        dec = [c for c in rb.calls if c.matches(r"prost::message::Message::decode$")]
        dcm = [c for c in rb.calls if c.is_("astria_core::brotli::decompress_bytes")]
        t = generic_arg(dec[0]) if dec else None
        rtypes.append(t)
        rep.check(t == want, "T4", f"reader-type:{short_name(fn)}", f"{fn} decodes {t}, writer sends {want}",
                  rb.describe())
        rep.check(bool(dcm) and bool(dec) and "decompress_bytes(blob.data)" in rb.root(dec[0].args[0]),
                  "T4", f"reader:decode(decompress):{short_name(fn)}",
                  "blob is not decoded from decompress_bytes(blob.data)", rb.describe())
    d = prog.main_body(CD + "decode_raw_blobs")
    for fn, nsname, src in ((CD + "convert_blob_to_header_list", "sequencer_namespace", "header_blobs"),
                            (CD + "convert_blob_to_rollup_data_list", "rollup_namespace", "rollup_blobs")):
        cs = d.calls_to(fn)
        eq = [c for c in comparisons(d) if c.op == "Eq" and nsname in (c.a, c.b) and ".namespace" in c.a + c.b
              and src in c.a + c.b]
        ok = bool(cs) and bool(eq) and d.must_pass_edges(set(eq[0].true_edges), cs[0].bb) and \
            src in d.root(cs[0].args[0])
        rep.check(ok, "T4", f"reader-namespace:{nsname}",
                  f"{short_name(fn)} is applied to blobs that were not checked to be in the "
                  f"{nsname}", d.describe())
    k1_callers(prog, rep, "T4", ["astria_core::brotli::compress_bytes"],
               [CV + "Payload::try_add"], floor=1,
               ignore_owner=lambda o: is_test_owner(o) or not o.startswith("astria_sequencer_relayer"))

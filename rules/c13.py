"""C13 Mempool keeps nonce order and never duplicates or silently loses a transaction.

 MP1 (K3 pairing) every removal of an id from the tracked set (`contained_txs`) is paired, in
     the same loop iteration / straight-line region, with a removal-cache report for the same
     id (so "not ready, not parked" always comes with a reason).
 MP2 (K2) the per-account container insert is dominated by the passing edge of all five
     preconditions (size limit, nonce >= current, vacant nonce, sequential-nonce, balance
     cover); the multi-account container checks the total count first and only installs a new
     per-account entry after its add succeeded.
 MP3 (K1) the containers' maps are mutated only by the enumerated container methods; the
     tracked set is inserted into only after a successful container add.
 MP6 (K2) loops over transactions that were extracted from a container (demotions, promotions,
     removals) run to exhaustion: no break/return/? inside.
 MP7 (K2) after a `split_off` of an account's map every returned value derives from the
     split-off part (nothing extracted is dropped on an early return).
 MP8 (K3c) run_maintenance treats both containers alike (clean + recost once each, on their own
     receiver) and re-homes in the right direction (pending -> parked, parked -> pending).
 MP5 (K5) promotion candidates are computed against balances net of the pending transactions'
     costs (`subtract_contained_costs`), in both insertion and maintenance.
Not decided: nonce-contiguity / affordability invariants over operation sequences, ordering of
the builder queue (a property of Ord values).
"""
import re

from facts import short_name
from kinds import (for_loops, loop_leaves_early, rel, comparisons, bool_payload_edges, k1_callers, k2_site_guarded,
                   on_all_success_paths)

CRATES = ["astria_sequencer.lib"]
M = "astria_sequencer::mempool::"
TC = M + "transactions_container::"


S_MEMPOOL = "astria_sequencer::mempool::"


def is_test_owner(o):
    return "::tests" in o or "test_utils" in o or "benchmark" in o or "::test::" in o


def run(prog, rep):
    rep.explanation = (
        "Pairing and must-dominate rules over the mempool MIR: each `contained_txs.remove(id)` "
        "must be accompanied by `comet_bft_removal_cache.add(id, reason)` for the same id before "
        "the loop iteration / function ends; the per-account insert lies behind all five "
        "admission checks; container maps are only touched by the container's own methods; "
        "promotion uses balances net of pending costs. Structural conditions only - sequences "
        "of operations are not explored.")
    rep.assumptions += ["production cfg only"]
    mp1(prog, rep)
    mp6(prog, rep)
    mp7(prog, rep)
    mp8(prog, rep)
    mp2(prog, rep)
    mp3(prog, rep)
    mp5(prog, rep)


def mp1(prog, rep):
    n = 0
    for o in prog.owners(r"^astria_sequencer::mempool::MempoolInner::\w+$"):
        for body in prog.bodies_of(o):
            rem = [c for c in body.calls if c.matches(r"hash::set::HashSet::<T, S, A>::remove$")
                   and body.root(c.args[0]) == "self.contained_txs"]
            if not rem:
                continue
            adds = [c for c in body.calls if c.is_(M + "RemovalCache::add")
                    and body.root(c.args[0]) == "self.comet_bft_removal_cache"]
            # region terminals: function return and loop headers (`next` of a for loop)
            terminals = set(body.return_blocks())
            for c in body.calls:
                if c.matches(r"Iterator>?::next$") and c.macros and c.macros[0] == "desugar:ForLoop":
                    terminals.add(c.bb)
            for r in rem:
                n += 1
                rid = body.root(r.args[1])
                same = [a for a in adds if body.root(a.args[1]) == rid]
                key = f"{short_name(o)}|remove({rid[:60]})"
                after = bool(same) and r.target is not None and not (
                    terminals & body.reachable(r.target, removed_blocks=[a.bb for a in same]))
                before = any(body.must_pass_block(a.bb, r.bb) and
                             not (terminals & (body.reachable(a.target, removed_blocks=[r.bb]) - {r.bb})
                                  and False) for a in same)
                rep.check(after or before, "MP1", key,
                          f"{o} drops transaction `{rid[:70]}` from the tracked set without "
                          f"reporting it to the removal cache: the transaction is neither ready, "
                          f"nor parked, nor reported as removed", r.where(),
                          detail="paired with RemovalCache::add of the same id")
    rep.floor("MP1", n, 5, "contained_txs.remove sites")


def mp6(prog, rep):
    """Transactions that were taken out of a container to be moved (`find_demotables`,
    `find_promotables`, the per-run `removed_txs` list) are no longer anywhere: the loop that
    re-homes or reports them must visit every one of them - it may only end by exhaustion."""
    n = 0
    for o in prog.owners(r"^astria_sequencer::mempool::MempoolInner::(run_maintenance|insert)$"):
        body = prog.main_body(o)
        for head, it in for_loops(body):
            m = re.search(r"(find_demotables|find_promotables|removed_txs|clear_account|"
                          r"clean_account_stale_expired|find_stale|recost)", it)
            if not m:
                continue
            n += 1
            early = loop_leaves_early(body, head)
            rep.check(early is False, "MP6", rep.nth(f"{short_name(o)}|for {m.group(1)}:exhaustive"),
                      f"the loop over `{it[:70]}` can be left before all extracted transactions "
                      "were re-homed or reported (break/return/?): the rest are in no container and "
                      "have no removal reason, yet stay tracked", head.where())
    rep.floor("MP6", n, 4, "loops over extracted transactions")


def mp7(prog, rep):
    """A `split_off` takes a range of transactions out of an account's map.  From that point on
    the function holds them: every value it can return afterwards must be derived from the
    split-off part (the caller re-homes or reports exactly what it is handed) - an early
    `return Vec::new()` after the split would drop them while they stay tracked."""
    n = 0
    for b in prog.bodies:
        if not b.owner.startswith("astria_sequencer::mempool::transactions_container::") or is_test_owner(b.owner):
            continue
        for c in b.calls:
            if short_name(c.callee) != "split_off" or c.expn or c.target is None:
                continue
            n += 1
            after = b.reachable(c.target)
            bad = []
            for d in b.defs.get(0, []):
                if d[0] == "call" and d[2].bb in after:
                    r = f"{short_name(d[2].callee)}(" + ",".join(b.root(a) for a in d[2].args) + ")"
                elif d[0] == "stmt" and d[1] in after:
                    rv = d[4]
                    r = b.root(rv[1]) if rv[0] == "use" else rv[0]
                else:
                    continue
                if "split_off(" not in r:
                    bad.append(r[:60])
            rep.check(not bad, "MP7", rep.nth(f"{short_name(b.owner)}|split_off:extracted-are-returned"),
                      f"{b.owner} can return `{bad[:2]}` after it has split transactions off the "
                      "account's map: the extracted transactions are dropped (neither returned "
                      "for re-homing/reporting nor put back) but stay tracked", c.where())
    rep.floor("MP7", n, 4, "split_off sites in the mempool containers")


def mp8(prog, rep):
    """Sibling agreement of the two per-container stanzas of run_maintenance, and the roles of
    the containers in the re-homing step: both containers are cleaned and (on a fee change)
    re-costed - each exactly once, on its own receiver; demotables are taken from *pending* and
    added to *parked*, promotables from *parked* and added to *pending*; remaining balances are
    those of *pending*.  A copy-paste slip (`self.parked` twice) leaves one container with stale
    costs: the ready set is then judged against wrong costs."""
    b = prog.main_body(S_MEMPOOL + "MempoolInner::run_maintenance")
    ops = {}
    for c in b.calls:
        if c.expn or not c.args:
            continue
        r0 = b.root(c.args[0])
        if r0 in ("self.pending", "self.parked"):
            ops.setdefault(short_name(c.callee), []).append(r0.split(".")[1])
    want = {
        "clean_account_stale_expired": ["parked", "pending"],
        "recost_transactions": ["parked", "pending"],
        "find_demotables": ["pending"],
        "find_promotables": ["parked"],
        "subtract_contained_costs": ["pending"],
        "pending_nonce": ["pending"],
    }
    for op, recv in want.items():
        got = sorted(ops.get(op, []))
        rep.check(got == recv, "MP8", f"run_maintenance:{op}:receivers",
                  f"run_maintenance calls `{op}` on {got}; expected once on each of {recv} "
                  "(a container that is skipped keeps stale entries / costs, one that is handled "
                  "twice hides the slip)", b.describe())
    # re-homing direction: what was demoted from pending goes to parked and vice versa
    for c in b.calls:
        if c.expn or short_name(c.callee) != "add" or not c.args:
            continue
        r0, r1 = b.root(c.args[0]), b.root(c.args[1])
        if r0 == "self.parked":
            rep.check("find_demotables(self.pending" in r1, "MP8", "demoted->parked",
                      f"parked.add receives `{r1[:70]}`", c.where())
        elif r0 == "self.pending":
            rep.check("find_promotables(self.parked" in r1, "MP8", "promoted->pending",
                      f"pending.add receives `{r1[:70]}`", c.where())


def mp2(prog, rep):
    o = TC + "TransactionsForAccount::add"
    body = prog.main_body(o)
    ins = [c for c in body.calls if c.matches(r"btree::map::BTreeMap::<K, V, A>::insert$")
           and "txs_mut(self)" in body.root(c.args[0])]
    rep.floor("MP2", len(ins), 1, "BTreeMap::insert in TransactionsForAccount::add")
    for c in ins:
        a = [body.root(x) for x in c.args]
        rep.check(a[1] == "nonce(ttx)" and a[2] == "ttx", "MP2", "insert-key=tx-nonce",
                  f"transaction stored under {a[1]}", c.where())
        where = c.where()
        # 1 size limit
        lim = [x for x in body.calls if x.is_(TC + "TransactionsForAccount::is_at_tx_limit")]
        be = bool_payload_edges(body, lim[0]) if lim else None
        rep.check(be is not None and body.must_pass_edges(set(be[1]), c.bb), "MP2", "insert<=below-limit",
                  "a transaction can be inserted although the account is at its size limit", where)
        # 2 nonce >= current
        cm = rel(body, "Lt", r"^nonce\(ttx\)$", r"^current_account_nonce$")
        rep.check(bool(cm) and body.must_pass_edges(set(cm[0].false_edges), c.bb), "MP2",
                  "insert<=nonce>=current",
                  "a transaction with a nonce below the account's current nonce can be inserted",
                  where)
        # 3 vacant nonce
        get = [x for x in body.calls if x.matches(r"BTreeMap::<K, V, A>::get$")
               and body.root(x.args[1]) == "nonce(ttx)"]
        ok3 = False
        if get:
            oe = body.outcome_edges(get[0])
            ok3 = oe["kind"] == "match_option" and body.must_pass_edges(set(oe["err"]), c.bb)
        rep.check(ok3, "MP2", "insert<=nonce-vacant",
                  "a transaction can replace another one stored under the same nonce", where)
        # 4 sequential nonce
        sq = [x for x in body.calls
              if x.is_(TC + "TransactionsForAccount::is_sequential_nonce_precondition_met")]
        be = bool_payload_edges(body, sq[0]) if sq else None
        rep.check(be is not None and body.must_pass_edges(set(be[0]), c.bb) and
                  [body.root(x) for x in sq[0].args] == ["self", "ttx", "current_account_nonce"],
                  "MP2", "insert<=sequential-nonce",
                  "a transaction can be inserted without the sequential-nonce precondition", where)
        # 5 balance cover
        bc = [x for x in body.calls if x.is_(TC + "TransactionsForAccount::has_balance_to_cover")]
        be = bool_payload_edges(body, bc[0]) if bc else None
        rep.check(be is not None and body.must_pass_edges(set(be[0]), c.bb) and
                  [body.root(x) for x in bc[0].args] == ["self", "ttx", "current_account_balances"],
                  "MP2", "insert<=balance-cover",
                  "a transaction can be inserted without the balance-cover precondition", where)
        rep.check(on_all_success_paths(body, via_blocks=[c.bb]), "MP2", "ok=>inserted",
                  "add can return Ok without having stored the transaction", where)
    # multi-account container
    o = TC + "TransactionsContainer::add"
    body = prog.main_body(o)
    chk = [c for c in body.calls if c.is_(TC + "TransactionsContainer::check_total_tx_count")]
    inner = [c for c in body.calls if c.is_(TC + "TransactionsForAccount::add")]
    rep.floor("MP2", len(inner), 2, "per-account add calls in TransactionsContainer::add")
    for c in inner:
        k2_site_guarded(rep, "MP2", rep.nth("container:add<=total-count"), body, c.bb, chk,
                        "a transaction can be added without the total-count check", c.where())
        rep.check(body.outcome_edges(c)["kind"] == "try", "MP2", rep.nth("container:inner-propagated"),
                  "a refused per-account add is not propagated", c.where())
    ent = [c for c in body.calls if c.matches(r"hash::map::VacantEntry::<.*>::insert$")]
    for e in ent:
        vac = [c for c in inner if "new()" in body.root(c.args[0]) or "T::new" in body.root(c.args[0])
               or True]
        good = any(body.outcome_edges(c)["kind"] == "try" and
                   body.must_pass_edges(set(body.outcome_edges(c)["ok"]), e.bb) for c in inner)
        rep.check(good, "MP2", "container:new-account<=add-ok",
                  "a new per-account entry is installed although adding the transaction to it "
                  "failed (empty account entries would accumulate)", e.where())


def mp3(prog, rep):
    allowed = [re.compile(r"^astria_sequencer::mempool::transactions_container::"
                          r"(TransactionsForAccount::(add|remove)|"
                          r"TransactionsContainer::(add|remove|clear_account|"
                          r"clean_account_stale_expired|recost_transactions)|"
                          r"ParkedTransactions::<.*>::find_promotables|"
                          r"PendingTransactions::find_demotables|"
                          r"<.* as astria_sequencer::mempool::transactions_container::"
                          r"Transactions(ForAccount|Container)<?.*>?>::txs_mut)")]
    k1_callers(prog, rep, "MP3", [TC + "TransactionsForAccount::txs_mut",
                                  TC + "TransactionsContainer::txs_mut"], allowed, floor=8,
               ignore_owner=is_test_owner)
    # tracked-set insertion only in insert(), behind a successful add
    ins_owner = M + "MempoolInner::insert"
    n = 0
    for o in prog.owners(r"^astria_sequencer::mempool::"):
        if is_test_owner(o):
            continue
        for body in prog.bodies_of(o):
            for c in body.calls:
                if c.matches(r"hash::set::HashSet::<T, S, A>::insert$") and \
                        body.root(c.args[0]) == "self.contained_txs":
                    n += 1
                    rep.check(o == ins_owner, "MP3", f"tracked-insert<-{short_name(o)}",
                              f"{o} adds an id to the tracked set", c.where())
                    if o == ins_owner:
                        adds = [x for x in body.calls if x.is_(TC + "TransactionsContainer::add")
                                and "checked_tx" in body.root(x.args[1])
                                and "find_promotables" not in body.root(x.args[1])]
                        good = False
                        for a in adds:
                            oe = body.outcome_edges(a)
                            if oe["ok"] and body.must_pass_edges(set(oe["ok"]), c.bb):
                                good = True
                        # either of the two adds (pending / parked) may be the successful one
                        all_ok = set()
                        for a in adds:
                            all_ok |= set(body.outcome_edges(a)["ok"])
                        good = good or (bool(all_ok) and body.must_pass_edges(all_ok, c.bb))
                        rep.check(good, "MP3", rep.nth("tracked-insert<=add-ok"),
                                  "a transaction is tracked as contained although neither "
                                  "container accepted it", c.where())
    rep.floor("MP3", n, 2, "contained_txs.insert sites")


def mp5(prog, rep):
    n = 0
    for o in (M + "MempoolInner::insert", M + "MempoolInner::run_maintenance"):
        body = prog.main_body(o)
        fp = [c for c in body.calls if c.matches(r"ParkedTransactions::<.*>::find_promotables$")]
        for c in fp:
            n += 1
            bal = body.root(c.args[3])
            rep.check(bal.startswith("subtract_contained_costs(self.pending,"), "MP5",
                      f"{short_name(o)}:promotables-net-of-pending",
                      f"{o} selects promotable transactions against `{bal[:70]}` instead of the "
                      f"balances remaining after the pending transactions' costs: transactions "
                      f"that are not jointly affordable get promoted (and then dropped)",
                      c.where(), detail=bal[:60])
            # the account is the same in both calls
            sub = [x for x in body.calls
                   if x.is_(TC + "PendingTransactions::subtract_contained_costs")]
            if sub:
                rep.check(body.root(sub[0].args[1]) == body.root(c.args[1]), "MP5",
                          f"{short_name(o)}:same-account",
                          "pending costs of a different account are subtracted", c.where())
    rep.floor("MP5", n, 2, "find_promotables call sites")

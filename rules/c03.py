"""C03 Transactions are atomic and execute at most once, in nonce order.

 N1 (K2+K5) CheckedTransaction::execute: every state write is dominated by the equal edge of
     `current_nonce == tx_nonce` (current_nonce read from state for the signer, tx_nonce from the
     signed params); the stored nonce is `checked_add(current_nonce, 1)` with the overflow edge
     leading to an error; it is written on every success path; only this function writes nonces.
 N2 (K6a) catch-site inventory: every call of a state-writing fallible function whose error is
     not propagated must be in the reviewed table.  The transaction-level catch sites run on a
     private delta (`try_begin_transaction`) that is applied only on the success edge.
 N3 (K1) the ephemeral object store (block fees, cached deposits, ibc context, execution
     results) holds plain values: no interior mutability / shared handles that would survive
     dropping a failed transaction's delta; fee accumulation re-stores the map on every path.
Not decided: replay over whole histories (it is the consequence of N1, which is checked).
"""
import re

from facts import short_name, ADAPTERS, TRY_BRANCH, place_local
from kinds import (exhaustive_loops, comparisons, result_blocks, k1_callers, on_all_success_paths, error_cut)

CRATES = ["astria_sequencer.lib"]
S = "astria_sequencer::"
CTX = S + "checked_transaction::CheckedTransaction::execute"
APPX = S + "app::App::execute_transaction"

RAW_WRITE = re.compile(
    r"cnidarium::write::StateWrite::(put_raw|delete|nonverifiable_put_raw|nonverifiable_delete|"
    r"object_put|object_delete|object_merge|record)$")
EXT_WRITE = re.compile(r"penumbra_sdk_ibc::.*(execute|Write::|::put_|send_packet)")

# reviewed catch sites: "caller -> callee" : disposition
CATCH_TABLE = {
    "app::App::proposal_checks_and_tx_execution -> app::App::execute_transaction":
        "delta: execute_transaction runs the tx on try_begin_transaction() and applies only on Ok",
    "app::App::finalize_block -> app::App::execute_transaction":
        "delta: same as above",
    "<ibc::ics20_transfer::Ics20Transfer as penumbra_sdk_ibc::component::app_handler::"
    "AppHandlerExecute>::recv_packet_execute -> ibc::ics20_transfer::receive_tokens":
        "region: must be write-then-fail free or run on a private delta (decided by C18-I3)",
    "service::consensus::Consensus::run -> service::consensus::Consensus::handle_request":
        "service loop: error is returned to CometBFT as an ABCI exception; no partial state is "
        "committed (App state is replaced per round, commit only in Commit)",
    "service::consensus::Consensus::handle_request -> "
    "service::consensus::Consensus::handle_process_proposal":
        "process_proposal error => Reject; App discards the round's delta "
        "(update_state_for_new_round) before any later execution",
    "service::consensus::Consensus::handle_prepare_proposal -> app::App::prepare_proposal":
        "error is converted to an ABCI error; the round's delta is discarded on the next round",
    "sequencer::Sequencer::spawn -> sequencer::Sequencer::initialize":
        "startup: failure aborts the process",
    "sequencer::start_abci_server -> service::consensus::Consensus::run":
        "startup/shutdown plumbing",
}


def writer_summary(prog):
    W = set()
    for b in prog.bodies:
        for c in b.calls:
            if any(RAW_WRITE.search(n) or EXT_WRITE.search(n) for n in c.names()):
                W.add(b.owner)
                break
    g = prog.callgraph
    changed = True
    while changed:
        changed = False
        for o, ts in g.items():
            if o not in W and (ts & W):
                W.add(o)
                changed = True
    return W


def disposition(body, call):
    """try | tail | match | dropped : what happens to a call's Result."""
    oe = body.outcome_edges(call)
    if oe["kind"] == "try":
        return "try", oe
    if call.target is None:
        return "tail", oe
    if place_local(call.dest) == 0:
        return "tail", oe
    events, taint = body.flow([place_local(call.dest)], call.target)
    for ev in events:
        if ev[0] == "call" and place_local(ev[2].dest) == 0 and (ev[2].is_(*ADAPTERS)):
            return "tail", oe
    # moved into the return place?
    for i, j, p, rv, line in body.assigns():
        if place_local(p) == 0 and rv[0] == "use" and rv[1][0] in "cm" and \
                place_local(rv[1][1]) in taint:
            return "tail", oe
    if oe["kind"] in ("match_result", "match_option", "bool"):
        # `if let Err(e) = f() { ...; return Err(convert(e)) }`: every path from the failure
        # edge to the return builds an Err -> the failure is propagated (converted)
        errs = set(result_blocks(body, "Err"))
        if oe["kind"] == "match_result" and oe["err"] and errs:
            rets = body.return_blocks()
            if all(not any(r in body.reachable(v, removed_blocks=errs) for r in rets)
                   for (u, v) in oe["err"] if v not in errs):
                return "tail", oe
        return "match", oe
    return "dropped", oe


def is_test_owner(o):
    return "::tests" in o or "test_utils" in o or "benchmark" in o or "::test::" in o


def run(prog, rep):
    rep.explanation = (
        "Must-dominate, operand-provenance and catch-site-inventory rules on the sequencer's "
        "transaction execution path: (N1) nonce equality dominates every write of "
        "CheckedTransaction::execute and the stored nonce is checked_add(current, 1), written on "
        "every success path and nowhere else; (N2) every non-propagated failure of a "
        "state-writing function in the whole sequencer is in a reviewed table, and the "
        "transaction-level sites run on a private StateDelta applied only on the success edge; "
        "(N3) ephemeral object-store values are plain data (no Mutex/RefCell/atomics), so "
        "dropping the delta really discards them. Decides these structural conditions, not "
        "replay-freedom over histories.")
    rep.assumptions += ["cnidarium StateDelta::apply/drop semantics are trusted",
                        "production cfg only"]
    n1(prog, rep)
    n2(prog, rep)
    n3(prog, rep)


# ----------------------------------------------------------------------------------------------
def n1(prog, rep):
    body = prog.main_body(CTX)
    exhaustive_loops(rep, "N1", body, r"self\.actions", 1, "the transaction's actions",
                     "the transaction would be reported executed (nonce consumed, fees paid) "
                     "although later actions never ran", ok_only=True)
    cm = [c for c in comparisons(body) if c.op == "Eq"
          and re.search(r"^get_account_nonce\(state,address_bytes\(self\)\)", c.a + "|" + c.b)
          and ("nonce(self.params)" in c.a + c.b)]
    # both orders
    cm = [c for c in comparisons(body) if c.op == "Eq"
          and "get_account_nonce(state,address_bytes(self))" in c.a + c.b
          and "nonce(self.params)" in c.a + c.b]
    if not cm:
        rep.fail("N1", "nonce-eq", "equality test between the signer's stored nonce and the "
                 "transaction's nonce not found in CheckedTransaction::execute", body.describe())
        return
    c = cm[0]
    rep.ok("N1", "nonce-eq", f"{c.a[:50]} == {c.b[:30]} L{c.line}")
    W = writer_summary(prog)
    n = 0
    for call in body.calls:
        tg = prog.resolve_targets(call)
        is_writer = any(t in W for t in tg) or any(RAW_WRITE.search(x) for x in call.names()) \
            or call.matches(r"::StateWriteExt::")
        if not is_writer or call.is_(*ADAPTERS):
            continue
        n += 1
        rep.check(body.must_pass_edges(set(c.true_edges), call.bb), "N1",
                  f"write<=nonce-eq:{short_name(call.callee)}",
                  f"`{short_name(call.callee)}` in CheckedTransaction::execute is reachable without "
                  f"passing the `current_nonce == tx_nonce` edge", call.where())
    rep.floor("N1", n, 3, "state-writing calls in CheckedTransaction::execute")
    put = body.calls_to(S + "accounts::state_ext::StateWriteExt::put_account_nonce")
    rep.floor("N1", len(put), 1, "put_account_nonce call")
    for pc in put:
        val = body.root(pc.args[2])
        rep.check(val.startswith("checked_add(get_account_nonce(state,address_bytes(self))") and
                  val.endswith(",const(1))<Continue>.0"), "N1", "next-nonce=checked_add(current,1)",
                  f"stored nonce is `{val[:120]}`, not checked_add(current_nonce, 1) behind `?`",
                  pc.where(), detail=val[:110])
        rep.check(body.root(pc.args[1]) == "self", "N1", "nonce-account=signer",
                  f"nonce is stored for `{body.root(pc.args[1])}`, not for the signer", pc.where())
        rep.check(on_all_success_paths(body, via_blocks=[pc.bb]), "N1", "nonce-written-on-success",
                  "CheckedTransaction::execute has a success path that does not store the "
                  "incremented nonce", pc.where())
    k1_callers(prog, rep, "N1", [S + "accounts::state_ext::StateWriteExt::put_account_nonce"],
               [CTX], floor=1, ignore_owner=is_test_owner)
    # the signer the fees are charged to and the nonce account are the same key
    ab = prog.main_body("<astria_sequencer::checked_transaction::CheckedTransaction as "
                        "astria_sequencer::accounts::AddressBytes>::address_bytes")
    r = [ab.root(["m", "0"])] if False else [c.callee for c in ab.calls]
    rep.check(any("VerificationKey::address_bytes" in x for x in r), "N1", "address=verification-key",
              "CheckedTransaction's address is not derived from its verification key",
              ab.describe())
    pf = [c for c in body.calls if c.is_(S + "checked_actions::checked_action::CheckedAction::"
                                         "pay_fees_and_execute")]
    rep.floor("N1", len(pf), 1, "pay_fees_and_execute call")
    for c2 in pf:
        rep.check(body.root(c2.args[2]) == "address_bytes(self.verification_key)", "N1",
                  "actions-run-as-signer",
                  f"actions are executed on behalf of `{body.root(c2.args[2])}`", c2.where())
    k1_callers(prog, rep, "N1", [CTX], [APPX], floor=1, ignore_owner=is_test_owner)
    k1_callers(prog, rep, "N1", [APPX],
               [S + "app::App::proposal_checks_and_tx_execution", S + "app::App::finalize_block"],
               floor=2, ignore_owner=is_test_owner)


# ----------------------------------------------------------------------------------------------
def n2(prog, rep):
    W = writer_summary(prog)
    rep.note(f"N2: {len(W)} state-writing functions in the sequencer (transitive summary)")
    rep.floor("N2", len(W), 100, "state-writing functions (summary)")
    seen = set()
    n_sites = 0
    for b in prog.bodies:
        if is_test_owner(b.owner):
            continue
        for c in b.calls:
            if c.is_(*ADAPTERS) or c.is_(TRY_BRANCH):
                continue
            tg = [t for t in prog.resolve_targets(c) if t != b.owner]
            if not any(t in W for t in tg):
                continue
            ret = None
            for t in tg:
                for bb in prog.bodies_of(t):
                    if bb.name == t:
                        ret = bb.locals[0]
            if ret is None or "Result<" not in ret:
                continue
            n_sites += 1
            d, oe = disposition(b, c)
            if d in ("try", "tail"):
                continue
            key = f"{b.owner.replace(S, '', 1) if b.owner.startswith(S) else b.owner.replace('<' + S, '<', 1)} -> " \
                  f"{tg[0].replace(S, '', 1)}"
            key = key.replace(S, "")
            if key in seen:
                continue
            seen.add(key)
            if key in CATCH_TABLE:
                rep.ok("N2", f"catch:{key}", f"{d}: {CATCH_TABLE[key]} ({c.where()})")
            else:
                rep.fail("N2", f"catch:{key}",
                         f"unreviewed swallowed failure of a state-writing function: "
                         f"{b.owner} does not propagate the error of {tg[0]} (disposition "
                         f"`{d}`); writes made before the failure would survive", c.where())
    rep.floor("N2", n_sites, 150, "calls of fallible state-writing functions inspected")
    rep.floor("N2", len(seen), 5, "non-propagating call sites found")
    # delta discipline in execute_transaction
    body = prog.main_body(APPX)
    begin = [c for c in body.calls if c.matches(r"ArcStateDeltaExt>?::try_begin_transaction$")]
    ex = body.calls_to(CTX)
    ap = [c for c in body.calls if c.matches(r"cnidarium::delta::StateDelta::<S>::apply$")]
    rep.floor("N2", len(begin), 1, "try_begin_transaction in execute_transaction")
    rep.floor("N2", len(ex), 1, "CheckedTransaction::execute call in execute_transaction")
    rep.floor("N2", len(ap), 1, "StateDelta::apply in execute_transaction")
    for e in ex:
        r = body.root(e.args[1])
        rep.check("try_begin_transaction(self.state)" in r, "N2", "tx-runs-on-private-delta",
                  f"the transaction is executed on `{r[:80]}` instead of a private delta of "
                  f"self.state", e.where(), detail=r[:80])
        oe = body.outcome_edges(e)
        for a in ap:
            rep.check(oe["kind"] == "try" and body.must_pass_edges(set(oe["ok"]), a.bb), "N2",
                      "apply<=execute-ok",
                      "the transaction's delta can be applied although execution failed",
                      a.where())
            rep.check("try_begin_transaction(self.state)" in body.root(a.args[0]), "N2",
                      "apply-same-delta", "apply is not called on the transaction's delta",
                      a.where())
    # no write to self.state (the block-level state) between begin and apply other than apply
    for c in body.calls:
        if c in ap or c in ex or c in begin or c.is_(*ADAPTERS):
            continue
        tg = prog.resolve_targets(c)
        if any(t in W for t in tg) or any(RAW_WRITE.search(x) for x in c.names()):
            rep.fail("N2", f"extra-write:{short_name(c.callee)}",
                     f"execute_transaction performs a state write outside the transaction's "
                     f"delta: {c.callee}", c.where())


# ----------------------------------------------------------------------------------------------
INTERIOR = re.compile(r"\b(Mutex|RwLock|RefCell|Cell|OnceCell|OnceLock|Atomic\w+|UnsafeCell|"
                      r"mpsc|watch|Sender|Receiver)\b")


def n3(prog, rep, rule="N3"):
    n = 0
    for c in prog.all_calls():
        if is_test_owner(c.body.owner):
            continue
        if c.matches(r"cnidarium::(write::StateWrite::object_put|read::StateRead::object_get|"
                     r"write::StateWrite::object_merge)$"):
            n += 1
            g = c.gargs or ""
            # first generic arg is Self; the rest is the stored type
            stored = g.split(",", 1)[1] if "," in g else g
            key = f"{short_name(c.callee)}<-{c.body.owner}"
            rep.check(not INTERIOR.search(stored), rule, key,
                      f"ephemeral object-store value has interior mutability / is a shared "
                      f"handle ({stored[:100]}): mutations through it bypass the transaction's "
                      f"StateDelta and survive a failed transaction", c.where(),
                      detail=stored[:80])
    rep.floor(rule, n, 8, "object_put/object_get call sites")
    # fee accumulation: object_put on every success path of add_fee_to_block_fees
    fn = S + "fees::state_ext::StateWriteExt::add_fee_to_block_fees"
    body = prog.main_body(fn)
    puts = [c for c in body.calls if c.matches(r"StateWrite::object_put$")]
    rep.check(bool(puts) and on_all_success_paths(body, via_blocks=[c.bb for c in puts]), rule,
              "block-fees-restored-by-value",
              "add_fee_to_block_fees has a success path that does not store the updated fee map "
              "into the state it was given", body.describe())
    # no statics / App fields written from checked action code: App fields assigned only in app::
    # (structural: CheckedAction code receives only the state handle)
    for o in prog.owners(r"^astria_sequencer::checked_actions::.*::execute$"):
        b = prog.main_body(o)
        sig = " ".join(b.locals[1:b.argc + 1])
        rep.check("astria_sequencer::app::App" not in sig, rule, f"no-app-handle:{short_name(o)}:{o[-60:]}",
                  f"{o} receives the App (side channel around the state delta)", b.describe())

"""Thorough tier: both-ways self test of the rule modules.

For the property under check, every patch in /verif/mutants/<id>-*.patch (one deliberately
broken rule instance each, still compiling) and every confirmed seeded change in
/verif/seeded/<id>*/patch.diff is applied to a scratch copy of /repo's *current* sources
(outside /repo and /verif), the fact driver is run on the scratch copy and the property's rules
must report a violation whose key contains the patch's `# expect:` substring.  Every patch in
/verif/refactors/<id>-*.patch (behaviour-preserving edit) must stay silent.  The scratch copy
is removed afterwards.  A missed mutant is reported as SELFTEST-MISS (it does not make the
property check fail: the property was decided on /repo's tree by the quick rules).
"""
import glob
import importlib
import json
import os
import re
import shutil
import subprocess
import sys
import time

import engine

SCRATCH = os.environ.get("VERIF_SCRATCH", "/var/tmp/astria-verif-scratch")


def _sync_scratch():
    os.makedirs(SCRATCH, exist_ok=True)
    subprocess.check_call(["rsync", "-a", "--delete", "--exclude", "/target", "--exclude", "/.git",
                           engine.REPO + "/", SCRATCH + "/repo/"])
    # the scratch copy equals /repo's tree, for which facts were just brought up to date: start
    # from those (content-hash stamps are path independent), so only mutated crates are re-run
    os.makedirs(SCRATCH + "/facts", exist_ok=True)
    if os.path.realpath(engine.FACTS) == os.path.realpath(SCRATCH + "/facts"):
        return
    for f in glob.glob(os.path.join(engine.FACTS, "*.jsonl")) + \
            glob.glob(os.path.join(engine.FACTS, "*.jsonl.stamp")):
        shutil.copy2(f, SCRATCH + "/facts/")


def _patch_meta(path):
    expect, note = None, ""
    for line in open(path, errors="replace"):
        if line.startswith("# expect:"):
            expect = line.split(":", 1)[1].strip()
        elif line.startswith("# note:"):
            note = line.split(":", 1)[1].strip()
        elif line.startswith("diff "):
            break
    return expect, note


def _apply(path, reverse=False):
    cmd = ["git", "apply", "--unsafe-paths", "-p1", "--directory", "", path]
    cmd = ["patch", "-p1", "-s", "-f", "-i", path] + (["-R"] if reverse else [])
    r = subprocess.run(cmd, cwd=SCRATCH + "/repo", stdout=subprocess.PIPE, stderr=subprocess.STDOUT,
                       text=True)
    return r.returncode == 0, r.stdout[-400:]


def _run_rules(pid, witnesses=False):
    """Run the property's rules on the scratch copy; returns (violations, known, n_obligations)."""
    from facts import Program, AnchorMissing
    mod = importlib.import_module(pid.lower())
    facts_dir = SCRATCH + "/facts"
    rep = engine.Report(pid, "thorough")
    prog = Program(mod.CRATES, facts_dir)
    try:
        mod.run(prog, rep)
    except AnchorMissing as e:
        rep.anchor_missing("anchor", str(e))
    except Exception as e:      # fail closed, as the real run would
        rep.fail("engine", "exception", f"rule engine raised {type(e).__name__}: {e}")
    if pid in engine.WITNESSES and witnesses:
        import witness
        try:
            witness.check(rep, engine.WITNESSES[pid][0], pid)
        except Exception as e:
            rep.fail("K9", "exception", f"witness runner raised {type(e).__name__}: {e}")
    return rep.violations, rep.known, len(rep.obligations)


def _with_scratch_env():
    engine.REPO = SCRATCH + "/repo"
    engine.FACTS = SCRATCH + "/facts"


def run(pid, rep):
    """Returns dict for the evidence file."""
    t0 = time.time()
    muts = sorted(glob.glob(os.path.join(engine.VERIF, "mutants", f"{pid}-*.patch")))
    seeds = []
    for d in sorted(glob.glob(os.path.join(engine.VERIF, "seeded", f"{pid}*"))):
        meta = os.path.join(d, "meta.json")
        if os.path.exists(os.path.join(d, "patch.diff")) and os.path.exists(meta):
            seeds.append(d)
    refs = sorted(glob.glob(os.path.join(engine.VERIF, "refactors", f"{pid}-*.patch")))
    out = {"mutants": [], "refactors": [], "scratch": SCRATCH}
    if not (muts or seeds or refs or os.environ.get("VERIF_SELFTEST_EXTRA")):
        out["note"] = "no mutants registered for this property"
        return out
    real_repo, real_facts = engine.REPO, engine.FACTS
    try:
        _sync_scratch()
        _with_scratch_env()
        cases = [(p, "mutant") for p in muts] + [(os.path.join(d, "patch.diff"), "seeded") for d in seeds] \
            + [(p, "refactor") for p in refs]
        extra = os.environ.get("VERIF_SELFTEST_EXTRA")    # developer aid: try one more patch
        if extra:
            cases = [(extra, "seeded")]
        only = os.environ.get("VERIF_SELFTEST_ONLY")      # developer aid: substring filter
        if only:
            cases = [c for c in cases if only in c[0]]
        for path, kind in cases:
            name = os.path.basename(path) if kind != "seeded" else os.path.basename(os.path.dirname(path))
            expect, note = _patch_meta(path)
            ok_apply, msg = _apply(path)
            entry = {"name": name, "kind": kind, "expect": expect, "note": note}
            if not ok_apply:
                entry.update({"result": "patch-does-not-apply", "detail": msg})
                out["mutants" if kind != "refactor" else "refactors"].append(entry)
                _sync_scratch()
                continue
            try:
                try:
                    engine.ensure_facts()
                    compiled = True
                except SystemExit:
                    compiled = False
                if not compiled:
                    entry["result"] = "does-not-compile"
                else:
                    vio, known, nob = _run_rules(pid, witnesses=(expect or "").startswith("K9"))
                    keys = [v["key"] for v in vio]
                    entry["violations"] = keys[:8]
                    if kind == "refactor":
                        entry["result"] = "silent" if not vio else "FALSE-ALARM"
                    else:
                        hit = [k for k in keys if (expect is None or expect in k)]
                        entry["result"] = "detected" if hit else ("detected-other-rule" if keys else "MISSED")
            finally:
                _apply(path, reverse=True)
            out["mutants" if kind != "refactor" else "refactors"].append(entry)
            log = f"[selftest] {pid} {kind} {name}: {entry['result']}"
            print(log, file=sys.stderr, flush=True)
            if entry["result"] in ("MISSED", "FALSE-ALARM"):
                print(f"SELFTEST-MISS: property={pid} {kind} {name} -> {entry['result']}")
    finally:
        engine.REPO, engine.FACTS = real_repo, real_facts
        shutil.rmtree(SCRATCH, ignore_errors=True)
    out["wall_s"] = round(time.time() - t0, 1)
    out["detected"] = sum(1 for m in out["mutants"] if m["result"].startswith("detected"))
    out["total"] = len(out["mutants"])
    return out

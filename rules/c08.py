"""C08 Merkle tree: RFC 6962 roots, complete and sound proofs, total verification.

Decided structurally:
 M1 (K7) totality of decoding + verification: no reachable panic construct from
    try_into_proof / verify / perform / reconstruct_root* / the protobuf conversion, given the
    invariants that try_into_proof itself establishes (checked here, see c17.merkle_invariants).
 M2 (K8) domain separation and operand order: leaf hashes start with 0x00, inner hashes with
    0x01 followed by left then right; no other hasher is created in the crate; the audit walk
    combines (acc, sibling) when the parent index is larger and (sibling, acc) otherwise, then
    moves to the parent; `perform` returns the equality of the expected and reconstructed root.
 M3 (K1) `Proof` values only come from construct_proof / try_into_proof / unchecked_from_parts
    (MIR rule + compile-fail witnesses for code outside the crate).
 M4 (K5 formulas) tree geometry: the thirteen straight-line index helpers have the closed forms
    of the in-order layout (compared canonically), complete_parent climbs perfect parents until
    inside the tree, the sibling is the other child of the parent, audit_path_len counts the
    climb to the root.
 M5 (K5) incremental update: after a push every ancestor of the new leaf up to the root is
    recomputed as combine(complete_left_child, complete_right_child) of that ancestor.
Not decided: equality with the RFC 6962 tree hash and proof soundness/completeness for all
sizes (index arithmetic over unbounded sizes and SHA-256: solver/prover territory).
"""
import re

from facts import short_name
from kinds import rel, must_be_equal, k7_panics, k1_callers, k1_constructors, comparisons, result_blocks
import c17

CRATES = ["astria_merkle.lib", "astria_core.lib", "astria_core_crypto.lib",
          "astria_core_address.lib"]
M = "astria_merkle::"

ENTRIES = [
    M + "audit::UncheckedProof::try_into_proof",
    M + "audit::Proof::verify",
    M + "audit::Proof::reconstruct_root_with_leaf_hash",
    M + "audit::Proof::reconstruct_root_with_leaf",
    "astria_core::primitive::v1::<impl astria_core::Protobuf for astria_merkle::audit::Proof>"
    "::try_from_raw",
    "astria_core::primitive::v1::<impl astria_core::Protobuf for astria_merkle::audit::Proof>"
    "::try_from_raw_ref",
]


def updates(body):
    """Ordered list of (line, arg-root) of Digest::update calls in CFG order."""
    out = []
    for c in body.calls:
        if c.matches(r"digest::digest::Digest>?::update$|Digest::update$"):
            out.append((c.bb, c.line, body.root(c.args[1])))
    return sorted(out)


def run(prog, rep):
    rep.explanation = (
        "Static rules over astria-merkle's MIR: (M1) panic reachability from the proof decoder "
        "and all verification entry points, with the two invariants (leaf index in range, audit "
        "path length equals the leaf's depth) required to be established on every path to "
        "Ok(Proof) in try_into_proof; (M2) 0x00/0x01 domain separation, left/right operand "
        "order in combine and in the audit walk, who may create a hasher; (M3) who may "
        "construct a Proof. These are necessary conditions for total verification and for the "
        "RFC 6962 shape; the equality root == MTH(leaves) for all sizes is NOT decided.")
    rep.assumptions += ["sha2/digest are trusted", "64-bit usize", "production cfg only"]
    entries = [e for e in ENTRIES]
    entries += sorted(o for o in prog.by_owner
                      if re.search(r"^astria_merkle::audit::Audit::<.*>::(perform|reconstruct_root)$", o))
    rep.floor("M1", len(entries), 8, "merkle verification/decoding entry points")
    triage = c17.merkle_triage(prog, rep, "M1")
    seen, n, used = k7_panics(prog, rep, "M1", entries, triage)
    rep.floor("M1", len(seen), 12, "functions reachable from merkle verification entry points")
    rep.note(f"M1: {len(seen)} functions reachable, {n} panic constructs inspected")

    m4(prog, rep)
    m5(prog, rep)

    # ---- M2 domain separation
    b = prog.main_body(M + "init_leaf_hasher")
    u = updates(b)
    rep.check(len(u) == 1 and u[0][2] == "array:{const(0)}", "M2", "leaf-prefix-0x00",
              f"leaf hasher is not initialised with exactly [0x00]: {u}", b.describe())
    b = prog.main_body(M + "combine")
    u = updates(b)
    rep.check([x[2] for x in u] == ["array:{const(1)}", "left", "right"], "M2",
              "inner-prefix-0x01-left-right",
              f"combine does not hash 0x01 || left || right in this order: {[x[2] for x in u]}",
              b.describe())
    b = prog.main_body(M + "hash_leaf")
    u = updates(b)
    rep.check(bool(b.calls_to(M + "init_leaf_hasher")) and [x[2] for x in u] == ["leaf"], "M2",
              "hash_leaf=0x00||leaf",
              f"hash_leaf is not init_leaf_hasher() then update(leaf): {u}", b.describe())
    # every hasher in the crate comes from these two functions (+ the empty-tree digest)
    k1_callers(prog, rep, "M2", [], [M + "combine", M + "init_leaf_hasher"], floor=2,
               rx=r"digest::digest::Digest>?::new$", what="Digest::new",
               ignore_owner=lambda o: not o.startswith((M, "<" + M)))
    k1_callers(prog, rep, "M2", [], [M + "Tree::root"], floor=1,
               rx=r"digest::digest::Digest>?::digest$", what="Digest::digest (empty tree)",
               ignore_owner=lambda o: not o.startswith((M, "<" + M)))
    k1_callers(prog, rep, "M2", [M + "init_leaf_hasher"],
               [M + "hash_leaf", M + "Tree::build_leaf",
                re.compile(r"^astria_merkle::audit::Audit::<.*>::with_leaf_builder$")], floor=3)
    # Tree::combine_nodes(i, j) = combine(get_node(i), get_node(j))
    b = prog.main_body(M + "Tree::combine_nodes")
    cc = b.calls_to(M + "combine")
    good = len(cc) == 1 and re.search(r"get_node\(self,i\)", b.root(cc[0].args[0])) and \
        re.search(r"get_node\(self,j\)", b.root(cc[0].args[1]))
    rep.check(bool(good), "M2", "combine_nodes-order",
              f"combine_nodes does not combine (node i, node j) in that order: "
              f"{[b.root(a) for a in cc[0].args] if cc else None}", b.describe())

    # ---- audit walk
    b = prog.main_body(M + "audit::Proof::reconstruct_root_with_leaf_hash")
    cmps = [c for c in comparisons(b) if c.op in ("Gt", "Lt") and "complete_parent" in c.a + c.b]
    comb = b.calls_to(M + "combine")
    rep.floor("M2", len(comb), 2, "combine calls in the audit walk")
    rep.floor("M2", len(cmps), 1, "parent/index comparison in the audit walk")
    if cmps and len(comb) >= 2:
        cm = cmps[0]
        # normalise to "parent > i"
        parent_gt = (cm.op == "Gt" and "complete_parent" in cm.a) or \
                    (cm.op == "Lt" and "complete_parent" in cm.b)
        t_edges, f_edges = (cm.true_edges, cm.false_edges) if parent_gt else (cm.false_edges, cm.true_edges)
        for c in comb:
            a0, a1 = b.root(c.args[0]), b.root(c.args[1])
            on_true = b.must_pass_edges(set(t_edges), c.bb) and not b.must_pass_edges(set(f_edges), c.bb)
            want = ("acc", "sibling") if on_true else ("sibling", "acc")

            def is_(role, r):
                sib = "audit_path" in r or "sibling" in r
                return sib if role == "sibling" else ("acc" in r and not sib)
            good = is_(want[0], a0) and is_(want[1], a1)
            rep.check(good, "M2", f"walk-order:{'parent>i' if on_true else 'parent<i'}",
                      f"audit walk combines ({a0[:40]}, {a1[:40]}) on the "
                      f"{'parent > i' if on_true else 'parent < i'} edge; expected "
                      f"({want[0]}, {want[1]})", c.where())
        # complete_parent(i, tree_size)
        cp = b.calls_to(M + "complete_parent")
        for c in cp:
            a = [b.root(x) for x in c.args]
            rep.check("tree_size" in a[1] and ("leaf_index_to_tree_index" in a[0] or a[0] == "i"
                                               or "complete_parent" in a[0]),
                      "M2", "walk-parent-operands", f"complete_parent called with {a}", c.where())
    lt = b.calls_to(M + "leaf_index_to_tree_index")
    rep.check(bool(lt) and "leaf_index" in b.root(lt[0].args[0]), "M2", "walk-start",
              "audit walk does not start at the leaf's tree index", b.describe())
    # perform(): returns root == reconstruct(leaf_hash)
    for o in prog.owners(r"^astria_merkle::audit::Audit::<.*>::perform$"):
        pb = prog.main_body(o)
        eq = [c for c in pb.calls if short_name(c.callee) == "eq" and c.dest == "0"]
        good = bool(eq) and any("reconstruct_root_with_leaf_hash" in pb.root(a) for a in eq[0].args) \
            and any(re.search(r"root", pb.root(a)) and "reconstruct" not in pb.root(a) for a in eq[0].args)
        rep.check(good, "M2", "perform=eq(root,reconstructed)",
                  "Audit::perform does not return the equality of the expected root and the "
                  "reconstructed root", pb.describe())
        rr = [c for c in pb.calls if c.is_(M + "audit::Proof::reconstruct_root_with_leaf_hash")]
        rep.check(bool(rr) and "leaf_hash" in pb.root(rr[0].args[1]), "M2", "perform-leaf",
                  "perform does not reconstruct from the audited leaf hash", pb.describe())

    # ---- M3 constructors
    k1_constructors(prog, rep, "M3", r"^astria_merkle::audit::Proof$",
                    [M + "audit::UncheckedProof::try_into_proof", M + "Tree::construct_proof",
                     M + "audit::Proof::unchecked_from_parts",
                     re.compile(r"^<astria_merkle::audit::Proof as core::clone::Clone>::clone$")],
                    floor=2)
    inv = c17.merkle_invariants(prog)
    rep.check(inv["I1"], "M3", "try_into_proof:index-validated-without-panic",
              "UncheckedProof::try_into_proof can panic on an untrusted leaf index "
              "(leaf_index * 2 overflows in leaf_index_to_tree_index) or does not bound the leaf "
              "index by the tree size", M + "audit::UncheckedProof::try_into_proof")
    rep.check(inv["I2"], "M3", "try_into_proof:path-length=depth",
              "UncheckedProof::try_into_proof accepts an audit path whose length differs from "
              "the leaf's depth; verifying such a proof walks past the root and panics in "
              "last_zero_bit (i + 1 overflow)", M + "audit::UncheckedProof::try_into_proof")


# ----------------------------------------------------------------------------------------------
# M4 tree geometry.  The in-order layout (leaves at even indices, a perfect tree with the right
# part cut off and re-attached) is computed by a dozen tiny index helpers; a wrong constant or a
# "simplified" sub-expression in any of them changes roots and proofs for particular tree sizes
# only (e.g. 11 leaves) and no test notices.  The helpers are straight-line, so their return
# values have closed forms; the forms below were read off today's tree, checked against the
# doc comments / RFC 6962 layout, and are compared modulo the identities in formula.py (operand
# order, grouping, checked/wrapping spelling, shifts vs. multiplication, parameter names).  A
# different algorithm for the same function is outside those identities and would be reported.
GEOMETRY = {
    "leaf_index_to_tree_index": ["(2 * $1)"],
    "last_set_bit": ["($1 - ($1 & ($1 - 1)))"],
    "last_zero_bit": ["last_set_bit(($1 + 1))"],
    "perfect_parent": ["(!(2 * last_zero_bit($1)) & ($1 | last_zero_bit($1)))"],
    "perfect_left_child": ["(!(last_zero_bit($1) / 2) & $1)"],
    "perfect_right_child": ["(!(last_zero_bit($1) / 2) & ($1 | last_zero_bit($1)))"],
    "perfect_root": ["($1 / 2)"],
    "complete_root": ["perfect_root((next_power_of_two(($1 + 1)) - 1))"],
    "complete_left_child": ["perfect_left_child($1)"],
    "complete_right_child": ["($1 + complete_root((- $1 + $2 - 1)) + 1)", "perfect_right_child($1)"],
    "is_branch": ["(($1 & 1) == 1)"],
    "is_tree_index_in_tree": ["($1 < $2)"],
    "is_perfect": ["(($1 + 1) == next_power_of_two($1))", "1"],
}


def m4(prog, rep):
    import formula
    n = 0
    for fn, want in sorted(GEOMETRY.items()):
        if M + fn not in prog.by_owner:
            rep.anchor_missing("M4", M + fn)
            continue
        b = prog.main_body(M + fn)
        got = formula.return_formulas(b)
        n += 1
        rep.check(got == sorted(want), "M4", f"geometry:{fn}",
                  f"index helper `{fn}` returns {got}; the in-order tree layout needs {sorted(want)} "
                  "(a different value moves nodes for some tree sizes: roots and proofs change)",
                  b.describe(), detail="; ".join(got))
    rep.floor("M4", n, 13, "index helpers with a closed form")
    # complete_right_child: the perfect-tree child is used only when it lies inside the tree
    b = prog.main_body(M + "complete_right_child")
    lt = rel(b, "Lt", r"^perfect_right_child\(i\)$|^right_child$", r"^n$")
    uses = [i for i, j, p, rv, line in b.assigns()
            if p == "0" and rv[0] == "use" and "perfect_right_child(" in b.root(rv[1])
            and "complete_root" not in b.root(rv[1])]
    rep.check(bool(lt) and bool(uses) and all(b.must_pass_edges(set(lt[0].true_edges), u) for u in uses),
              "M4", "right-child:perfect-only-if-in-tree",
              "complete_right_child returns the perfect-tree child although it is outside the tree",
              b.describe())
    cr = [c for c in b.calls if c.is_(M + "complete_root")]
    rep.check(not cr or (bool(lt) and all(b.must_pass_edges(set(lt[0].false_edges), c.bb) for c in cr)),
              "M4", "right-child:reattached-only-if-outside",
              "the re-attached subtree root is used although the perfect child is in the tree",
              b.describe())
    # complete_parent: climb perfect parents until inside the tree
    b = prog.main_body(M + "complete_parent")
    pp = [c for c in b.calls if c.is_(M + "perfect_parent")]
    lt = rel(b, "Lt", r"^i$", r"^n$")
    rets = b.return_blocks()
    ok = len(pp) == 1 and b.root(pp[0].args[0]) == "i" and bool(lt) and \
        all(b.must_pass_edges(set(lt[0].true_edges), r) for r in rets) and \
        all(b.must_pass_block(pp[0].bb, r) for r in rets) and \
        pp[0].bb in b.reachable(lt[0].false_edges[0][1] if lt and lt[0].false_edges else -1)
    rep.check(ok, "M4", "complete_parent:climb-until-in-tree",
              "complete_parent is not `loop { i = perfect_parent(i); if i < n { break i } }` "
              "(at least one step, stop at the first ancestor inside the tree)", b.describe())
    user = [c for c in b.calls if not c.expn]
    rep.check(len(user) == 1, "M4", "complete_parent:no-other-calls",
              f"complete_parent calls {[short_name(c.callee) for c in user]}", b.describe())
    # complete_parent_and_sibling: sibling is the other child of the parent
    b = prog.main_body(M + "complete_parent_and_sibling")
    lt = rel(b, "Lt", r"^i$", r"^complete_parent\(i,n\)$")
    rc = [c for c in b.calls if c.is_(M + "complete_right_child")]
    lc = [c for c in b.calls if c.is_(M + "complete_left_child")]
    ok = bool(lt) and len(rc) == 1 and len(lc) == 1 and \
        b.must_pass_edges(set(lt[0].true_edges), rc[0].bb) and \
        b.must_pass_edges(set(lt[0].false_edges), lc[0].bb) and \
        [b.root(a) for a in rc[0].args] == ["complete_parent(i,n)", "n"] and \
        [b.root(a) for a in lc[0].args] == ["complete_parent(i,n)"]
    rep.check(ok, "M4", "sibling=other-child-of-parent",
              "the sibling of a node left of its parent must be the parent's right child and "
              "vice versa, both taken from complete_parent(i, n)", b.describe())
    got = formula.return_formulas(b)
    rep.check(got == ["(complete_parent($1, $2), s)"], "M4", "parent-and-sibling:returns",
              f"returns {got}", b.describe())
    # audit_path_len: number of complete_parent steps from the leaf's node to the root
    b = prog.main_body(M + "audit_path_len")
    ok, how = must_be_equal(b, r"^i$", r"^complete_root\(tree_size\)$",
                            [r for r in result_some(b)][0] if result_some(b) else -1)
    cp = [c for c in b.calls if c.is_(M + "complete_parent")]
    inc = [c for c in b.calls if short_name(c.callee) in ("saturating_add", "checked_add", "wrapping_add")
           and b.root(c.args[0]) == "len" and b.root(c.args[1]) == "const(1)"]
    l2t = [c for c in b.calls if c.is_(M + "leaf_index_to_tree_index")]
    rep.check(ok and len(cp) == 1 and [b.root(a) for a in cp[0].args] == ["i", "tree_size"]
              and bool(inc) and len(l2t) == 1 and b.root(l2t[0].args[0]) == "leaf_index",
              "M4", "audit_path_len=steps-to-root",
              "audit_path_len does not count complete_parent steps from the leaf's node until "
              f"the root is reached ({how})", b.describe())


def m5(prog, rep):
    """M5 incremental update (Tree::push / LeafBuilder::drop): after the new leaf is stored, every
    ancestor up to the root is recomputed as combine(left child, right child) with the children
    taken from the tree geometry (complete_left_child / complete_right_child of that ancestor,
    for the current size) - a shortcut for the right child hashes the wrong node for the tree
    sizes whose right subtree is itself incomplete."""
    o = "<astria_merkle::LeafBuilder<'_> as core::ops::drop::Drop>::drop"
    if o not in prog.by_owner:
        rep.anchor_missing("M5", o)
        return
    b = prog.main_body(o)
    comb = [c for c in b.calls if short_name(c.callee) == "combine_nodes" and not c.expn]
    sets = [c for c in b.calls if short_name(c.callee) == "set_node" and not c.expn]
    par = [c for c in b.calls if c.is_(M + "complete_parent")]
    rep.floor("M5", len(comb), 1, "combine_nodes in LeafBuilder::drop")
    rep.floor("M5", len(par), 1, "complete_parent in LeafBuilder::drop")
    for c in comb:
        a = [b.root(x) for x in c.args]
        ok = len(a) == 3 and a[1] == "complete_left_child(idx)" and \
            a[2] == "complete_right_child(idx,len(self.tree))"
        rep.check(ok, "M5", "ancestor=combine(left-child,right-child)",
                  f"an ancestor of the new leaf is recomputed from nodes ({a[1][:50]}, {a[2][:60]}) "
                  "instead of (complete_left_child(idx), complete_right_child(idx, size))", c.where())
        st = [s_ for s_ in sets if "combine_nodes(" in b.root(s_.args[2])]
        rep.check(bool(st) and all(b.root(s_.args[1]) == "idx" for s_ in st), "M5",
                  "ancestor-stored-at-its-index", "the recomputed hash is not stored at the "
                  "ancestor's own index", c.where())
    for c in par:
        a = [b.root(x) for x in c.args]
        rep.check(a == ["idx", "len(self.tree)"], "M5", "climb=complete_parent(idx,size)",
                  f"the climb uses complete_parent({a})", c.where())
    ok, how = must_be_equal_any_exit(b)
    rep.check(ok, "M5", "climb-ends-at-root",
              "the ancestor update can stop before the root (complete_root(size)) was recomputed",
              b.describe(), detail=how)


def must_be_equal_any_exit(b):
    """the loop in LeafBuilder::drop is left only through `idx == complete_root(len(tree))`"""
    cs = rel(b, "Eq", r"^idx$", r"^complete_root\(len\(self\.tree\)\)$")
    if not cs:
        return False, "no `idx == root` test"
    comb = [c for c in b.calls if short_name(c.callee) == "combine_nodes" and not c.expn]
    # after a combine, every return passes the equal edge
    for c in comb:
        if c.target is None:
            return False, "combine does not return"
        for r in b.return_blocks():
            if r in b.reachable(c.target, removed_edges=set(cs[0].true_edges)):
                return False, "return reachable without idx == root"
    return True, "idx == root"


def result_some(b):
    out = []
    for i, j, p, rv, line in b.assigns():
        if p == "0" and rv[0] == "agg" and rv[3] == "Some":
            out.append(i)
    return out

"""C04 Bridge solvency: deposits are backed, withdrawals are paid at most once.

 B1 (K2+K5) every deposit emission is paired with an equal credit of the named bridge account:
    the Deposit's (bridge_address, asset, amount) have the same roots as the increase_balance in
    the same handler, the emission lies behind the credit (actions) / in the same success region
    (packets), and the ABCI event and the cached deposit are built from the same Deposit value.
 B2 (K6) no deposit survives a failed action (C03-N2, transaction delta) or a failed packet
    (C18-I3 atomic region) - evaluated here for the packet region as well.
 B3 (K8+K2) withdrawal-event idempotence plumbing: the guard's lookup and execute's record use
    the same (bridge address, event id) operands in BridgeUnlock, BridgeTransfer (through its
    unlock) and Ics20Withdrawal; the record lies on every success path; getter and putter use
    the same key constructor; success requires the lookup to return None.
 B4 (K1) cached deposits are read for the block only by the proposal/finalize code and stored
    only by post_execute_transactions.
Not decided: the solvency inequality over histories.
"""
import re

from facts import short_name
from kinds import (comparisons, k1_callers, on_all_success_paths, error_cut, k2_site_guarded)
import c18

CRATES = ["astria_sequencer.lib"]
S = "astria_sequencer::"
CA = S + "checked_actions::"
BR = S + "bridge::state_ext::"
ICS = S + "ibc::ics20_transfer::"
ACC = S + "accounts::state_ext::StateWriteExt::"
LOCK = CA + "bridge::bridge_lock::CheckedBridgeLockImpl::<PURE_LOCK>::"
UNLOCK = CA + "bridge::bridge_unlock::CheckedBridgeUnlockImpl::<PURE_UNLOCK>::"


def is_test_owner(o):
    return "::tests" in o or "test_utils" in o or "benchmark" in o


def run(prog, rep):
    rep.explanation = (
        "Pairing / provenance rules for bridge deposits and withdrawal events on the sequencer "
        "MIR: deposit emission sites are enumerated (K1) and each is tied by K5-equal operands "
        "to an increase_balance of the same bridge account, asset and amount in the same "
        "handler; the deposit event and the cached deposit come from one Deposit value; the "
        "withdrawal-event lookup (guard) and record (execute) use identical operands and one key "
        "constructor in all three carrying actions and the record is on every success path; "
        "failure atomicity of the packet region is evaluated as in C18. The solvency inequality "
        "itself is not evaluated.")
    rep.assumptions += ["production cfg only", "transaction-level rollback is decided by C03-N2"]
    b1(prog, rep)
    c18.i3(prog, rep)      # B2
    # B2 (cont.): the per-block deposit cache lives in the ephemeral object store; a deposit of a
    # failed transaction / packet only disappears with its delta if the stored value is a plain
    # value (no shared handle that a child delta would write through) - rule shared with C03-N3
    import c03
    c03.n3(prog, rep, rule="B2")
    b3(prog, rep)
    b4(prog, rep)


def fields(body, rv):
    return dict(zip(rv[5], [body.root(o) for o in rv[4]]))


def b1_asset_guard(prog, rep):
    """Every ICS20 deposit is in the bridge account's own asset: the publication of a deposit
    (`cache_deposit_event` / `record(create_deposit_event)` in emit_deposit) lies behind
    `get_bridge_account_ibc_asset(bridge_address) == asset.to_ibc_prefixed()`, either inside
    emit_deposit itself (then every caller - receive *and* refund - is covered) or, failing that,
    in front of every call of emit_deposit."""
    ICS = S + "ibc::ics20_transfer::"
    fn = ICS + "emit_deposit"
    b = prog.main_body(fn)

    def guards(body):
        return [c for c in comparisons(body) if c.op == "Eq"
                and "get_bridge_account_ibc_asset(" in c.a + c.b and "to_ibc_prefixed(" in c.a + c.b]
    pubs = [c for c in b.calls if short_name(c.callee) in ("cache_deposit_event",)]
    rep.floor("B1", len(pubs), 1, "deposit publication in emit_deposit")
    g = guards(b)
    inside = bool(g) and all(b.must_pass_edges(set(g[0].true_edges), p.bb) for p in pubs)
    if inside:
        a = g[0].a + "|" + g[0].b
        rep.check("bridge_address" in a and "to_ibc_prefixed(asset)" in a, "B1",
                  "ics20:deposit<=asset-is-bridge-asset",
                  f"the asset guard in emit_deposit compares {a[:120]}", b.describe())
        return
    callers = prog.callers_of(fn)
    bad = []
    for owner, calls in sorted(callers.items()):
        if is_test_owner(owner):
            continue
        for c in calls:
            cg = guards(c.body)
            if not (cg and c.body.must_pass_edges(set(cg[0].true_edges), c.bb)):
                bad.append(short_name(owner))
    rep.check(not bad, "B1", "ics20:deposit<=asset-is-bridge-asset",
              f"a deposit can be published for a bridge account in an asset other than the one it "
              f"bridges: emit_deposit no longer checks the asset and {sorted(set(bad))} call(s) it "
              "without having checked it (the refund path of a rollup withdrawal goes through "
              "emit_deposit as well)", b.describe())


def b1(prog, rep):
    b1_asset_guard(prog, rep)
    cache = BR + "StateWriteExt::cache_deposit_event"
    k1_callers(prog, rep, "B1", [cache], [LOCK + "record_deposit", ICS + "emit_deposit"], floor=2,
               ignore_owner=is_test_owner)
    k1_callers(prog, rep, "B1", [LOCK + "record_deposit"],
               [CA + "bridge::bridge_lock::CheckedBridgeLockImpl::<true>::execute",
                CA + "bridge::bridge_transfer::CheckedBridgeTransfer::execute"], floor=2,
               ignore_owner=is_test_owner)
    k1_callers(prog, rep, "B1", [ICS + "emit_deposit"],
               [ICS + "emit_bridge_lock_deposit", ICS + "refund_tokens"], floor=2,
               ignore_owner=is_test_owner)
    k1_callers(prog, rep, "B1", [ICS + "emit_bridge_lock_deposit"], [ICS + "receive_tokens"],
               floor=1, ignore_owner=is_test_owner)
    # record_deposit: event and cached deposit from the same self.deposit
    b = prog.main_body(LOCK + "record_deposit")
    ev = [c for c in b.calls if c.matches(r"create_deposit_event$")]
    ch = [c for c in b.calls if c.is_(cache)]
    rec = [c for c in b.calls if c.matches(r"StateWrite::record$")]
    good = len(ev) == 1 and len(ch) == 1 and len(rec) == 1 and \
        b.root(ev[0].args[0]) == "self.deposit" and "self.deposit" in b.root(ch[0].args[1]) and \
        "create_deposit_event(self.deposit)" in b.root(rec[0].args[1])
    rep.check(good, "B1", "lock:event=cached=self.deposit",
              "record_deposit does not publish the event and the cached deposit from the same "
              "Deposit value", b.describe())
    # the Deposit built in CheckedBridgeLockImpl::new mirrors the action
    b = prog.main_body(LOCK + "new")
    deps = list(b.aggregates("adt", r"sequencerblock::v1::block::Deposit$"))
    rep.floor("B1", len(deps), 1, "Deposit construction in CheckedBridgeLockImpl::new")
    for i, j, p, rv, line in deps:
        f = fields(b, rv)
        where = f"{b.file}:{line}"
        rep.check(f.get("bridge_address") == "action.to", "B1", "lock:deposit.bridge_address=action.to",
                  f"deposit names bridge `{f.get('bridge_address')}`, the credit goes to action.to", where)
        rep.check(f.get("amount") == "action.amount", "B1", "lock:deposit.amount=action.amount",
                  f"deposit amount is `{f.get('amount')}` but action.amount is credited", where)
        asset_roots = [f.get("asset", "")]
        m = re.match(r"^into\((\w+)\)$|^(\w+)$", asset_roots[0])
        if m:
            asset_roots = b.named_def_roots(m.group(1) or m.group(2)) or asset_roots
        rep.check(all("action.asset" in r for r in asset_roots), "B1", "lock:deposit.asset<-action.asset",
                  f"deposit asset `{f.get('asset', '')[:80]}` is not derived from action.asset", where)
        rep.check(re.match(r"^get_bridge_account_rollup_id\(state,action\.to\)", f.get("rollup_id", ""))
                  is not None, "B1", "lock:deposit.rollup_id<-bridge(action.to)",
                  f"deposit rollup id comes from `{f.get('rollup_id', '')[:80]}`", where)
    # aggregate of the checked action keeps that deposit together with the action
    for i, j, p, rv, line in b.aggregates("adt", r"CheckedBridgeLockImpl$"):
        f = fields(b, rv)
        rep.check(f.get("action") == "action" and "Deposit{" in f.get("deposit", ""), "B1",
                  "lock:self.deposit-from-self.action",
                  f"checked lock stores action={f.get('action')} deposit={f.get('deposit', '')[:40]}",
                  f"{b.file}:{line}")
    # execute: credit(self.action.to, self.action.asset, self.action.amount) then record_deposit
    b = prog.main_body(CA + "bridge::bridge_lock::CheckedBridgeLockImpl::<true>::execute")
    inc = [c for c in b.calls if c.is_(ACC + "increase_balance")]
    rd = [c for c in b.calls if c.is_(LOCK + "record_deposit")]
    rep.floor("B1", len(rd), 1, "record_deposit in BridgeLock::execute")
    for r in rd:
        k2_site_guarded(rep, "B1", "lock:deposit<=credit-ok", b, r.bb, inc,
                        "a bridge-lock deposit can be published without the bridge account having "
                        "been credited", r.where())
    for c in inc:
        a = [b.root(x) for x in c.args]
        rep.check(a[1:] == ["self.action.to", "self.action.asset", "self.action.amount"], "B1",
                  "lock:credit-operands", f"bridge lock credits {a[1:]}", c.where())
    # bridge transfer: unlock and lock are built from the same (to, amount); credit uses them
    b = prog.main_body(CA + "bridge::bridge_transfer::CheckedBridgeTransfer::new")
    bu = list(b.aggregates("adt", r"action::BridgeUnlock$"))
    bl = list(b.aggregates("adt", r"action::BridgeLock$"))
    if bu and bl:
        fu, fl = fields(b, bu[0][3]), fields(b, bl[0][3])
        rep.check(fu.get("to") == fl.get("to") and fu.get("amount") == fl.get("amount"), "B1",
                  "transfer:lock-mirrors-unlock",
                  f"bridge transfer builds unlock(to={fu.get('to')}, amount={fu.get('amount')}) but "
                  f"lock(to={fl.get('to')}, amount={fl.get('amount')}): the deposit would not match "
                  f"the credit", f"{b.file}:{bl[0][4]}")
        rep.check("bridge_account_ibc_asset(" in fl.get("asset", ""), "B1", "transfer:lock-asset",
                  f"lock asset is {fl.get('asset', '')[:60]}", f"{b.file}:{bl[0][4]}")
    else:
        rep.fail("B1", "transfer:shape", "BridgeTransfer::new no longer builds an unlock and a lock",
                 b.describe())
    b = prog.main_body(CA + "bridge::bridge_transfer::CheckedBridgeTransfer::execute")
    inc = [c for c in b.calls if c.is_(ACC + "increase_balance")]
    rd = [c for c in b.calls if c.is_(LOCK + "record_deposit")]
    rep.floor("B1", len(rd), 1, "record_deposit in BridgeTransfer::execute")
    for r in rd:
        k2_site_guarded(rep, "B1", "transfer:deposit<=credit-ok", b, r.bb, inc,
                        "a bridge-transfer deposit can be published without the destination "
                        "bridge account having been credited", r.where())
        rep.check(b.root(r.args[0]) == "self.checked_bridge_lock", "B1", "transfer:deposit-of-lock",
                  f"deposit recorded from {b.root(r.args[0])}", r.where())
    for c in inc:
        a = [b.root(x) for x in c.args]
        good = a[1] == "action(self.checked_bridge_unlock).to" and \
            a[2] == "bridge_account_ibc_asset(self.checked_bridge_unlock)" and \
            a[3] == "action(self.checked_bridge_unlock).amount"
        rep.check(good, "B1", "transfer:credit-operands", f"bridge transfer credits {a[1:]}", c.where())
    # ics20 emit_deposit
    b = prog.main_body(ICS + "emit_deposit")
    deps = list(b.aggregates("adt", r"sequencerblock::v1::block::Deposit$"))
    rep.floor("B1", len(deps), 1, "Deposit construction in emit_deposit")
    for i, j, p, rv, line in deps:
        f = fields(b, rv)
        good = f.get("bridge_address") == "bridge_address" and f.get("amount") == "amount" and \
            f.get("asset", "").startswith("into(asset") or f.get("asset") == "asset"
        good = f.get("bridge_address") == "bridge_address" and f.get("amount") == "amount" and \
            "asset" in f.get("asset", "")
        rep.check(good, "B1", "ics20:deposit-fields",
                  f"ics20 deposit fields {dict((k, v[:40]) for k, v in f.items())}", f"{b.file}:{line}")
        rep.check(re.match(r"^get_bridge_account_rollup_id\(state,bridge_address\)", f.get("rollup_id", ""))
                  is not None, "B1", "ics20:deposit.rollup_id", f"rollup id from {f.get('rollup_id', '')[:60]}",
                  f"{b.file}:{line}")
    ev = [c for c in b.calls if c.matches(r"create_deposit_event$")]
    ch = [c for c in b.calls if c.is_(cache)]
    good = len(ev) == 1 and len(ch) == 1 and "Deposit{" in b.root(ev[0].args[0]) and \
        b.root(ev[0].args[0]) == b.root(ch[0].args[1])
    rep.check(good, "B1", "ics20:event=cached", "ics20 deposit event and cached deposit differ",
              b.describe())
    # receive: emit(recipient, asset, amount) and credit(recipient, asset, amount)
    b = prog.main_body(ICS + "receive_tokens")
    em = [c for c in b.calls if c.is_(ICS + "emit_bridge_lock_deposit")]
    inc = [c for c in b.calls if c.is_(ACC + "increase_balance")]
    if em and inc:
        ea, ia = [b.root(x) for x in em[0].args], [b.root(x) for x in inc[0].args]
        rep.check(ea[1] == ia[1] and ea[2] == ia[2] and ea[3] == ia[3], "B1", "ics20:recv:deposit=credit",
                  f"receive publishes a deposit for ({ea[1][:30]}, {ea[2][:30]}, {ea[3][:30]}) but "
                  f"credits ({ia[1][:30]}, {ia[2][:30]}, {ia[3][:30]})", em[0].where())
        rep.check(on_all_success_paths(b, via_blocks=[inc[0].bb]), "B1", "ics20:recv:credit-always",
                  "receive can succeed (and have published a deposit) without the credit", inc[0].where())
    else:
        rep.fail("B1", "ics20:recv:shape", "receive_tokens shape changed", b.describe())
    b = prog.main_body(ICS + "emit_bridge_lock_deposit")
    em = [c for c in b.calls if c.is_(ICS + "emit_deposit")]
    for c in em:
        a = [b.root(x) for x in c.args]
        rep.check(a[1] == "bridge_address" and a[3] == "asset" and a[4] == "amount", "B1",
                  "ics20:recv:forwarded", f"emit_bridge_lock_deposit forwards {a[1:]}", c.where())
    b = prog.main_body(ICS + "refund_tokens")
    em = [c for c in b.calls if c.is_(ICS + "emit_deposit")]
    rf = [c for c in b.calls if c.is_(ICS + "refund_tokens_to_sequencer_address")]
    if em and rf:
        ea, ra = [b.root(x) for x in em[0].args], [b.root(x) for x in rf[0].args]
        rep.check(ea[1] == ra[1] and ea[3] == ra[2] and ea[4] == ra[3], "B1", "ics20:refund:deposit=credit",
                  f"refund publishes a deposit for ({ea[1][:30]}, {ea[3][:30]}, {ea[4][:30]}) but "
                  f"refunds ({ra[1][:30]}, {ra[2][:30]}, {ra[3][:30]})", em[0].where())
        rep.check(on_all_success_paths(b, via_blocks=[rf[0].bb]), "B1", "ics20:refund:credit-always",
                  "refund can succeed after publishing a deposit without crediting", rf[0].where())
    else:
        rep.fail("B1", "ics20:refund:shape", "refund_tokens shape changed", b.describe())


def none_edges_of_lookup(body, getter_rx):
    """Switch on the Option returned by the withdrawal-event lookup: (none_edges, some_edges,
    args roots)."""
    calls = [c for c in body.calls if c.matches(getter_rx)]
    if not calls:
        return None
    c = calls[0]
    events, taint = body.flow([int(c.dest.split("|")[0])], c.target)
    for ev in events:
        if ev[0] != "switch":
            continue
        bb, t = ev[1], ev[2]
        src = body._disc_source(bb, t)
        if src is None:
            continue
        ty = body.locals[src]
        if "core::option::Option<u64>" in ty:
            some = [(bb, tgt) for v, tgt in t[2] if v == 1]
            none = [(bb, tgt) for v, tgt in t[2] if v == 0] or [(bb, t[3])]
            return none, some, [body.root(a) for a in c.args], c
    return None


def b3(prog, rep):
    get_rx = r"bridge::state_ext::StateReadExt::get_withdrawal_event_rollup_block_number$"
    put = BR + "StateWriteExt::put_withdrawal_event_rollup_block_number"
    # unlock (also used by bridge transfer)
    g = prog.main_body(UNLOCK + "run_mutable_checks")
    r = none_edges_of_lookup(g, get_rx)
    if r is None:
        rep.fail("B3", "unlock:lookup", "withdrawal-event lookup not found in BridgeUnlock checks",
                 g.describe())
    else:
        none, some, ga, c = r
        rep.check(on_all_success_paths(g, via_edges=none), "B3", "unlock:success=>unused-id",
                  "BridgeUnlock checks can succeed although the withdrawal event id was already "
                  "used", c.where())
        rep.check(ga[1:] == ["self.action.bridge_address", "self.action.rollup_withdrawal_event_id"],
                  "B3", "unlock:lookup-operands", f"lookup uses {ga[1:]}", c.where())
        rw = prog.main_body(UNLOCK + "record_withdrawal_event")
        pc = [x for x in rw.calls if x.is_(put)]
        rep.floor("B3", len(pc), 1, "put_withdrawal_event in record_withdrawal_event")
        for x in pc:
            pa = [rw.root(a) for a in x.args]
            rep.check(pa[1:3] == ga[1:3], "B3", "unlock:record=lookup-key",
                      f"the event is recorded under {pa[1:3]} but looked up under {ga[1:3]}: the "
                      f"same id could be honoured again", x.where(), detail=str(pa[1:3]))
            rep.check(pa[3] == "self.action.rollup_block_number", "B3", "unlock:record-value",
                      f"recorded value {pa[3]}", x.where())
    for o, recv in ((CA + "bridge::bridge_unlock::CheckedBridgeUnlockImpl::<true>::execute", "self"),
                    (CA + "bridge::bridge_transfer::CheckedBridgeTransfer::execute",
                     "self.checked_bridge_unlock")):
        b = prog.main_body(o)
        rc = [c for c in b.calls if c.is_(UNLOCK + "record_withdrawal_event")]
        rep.check(bool(rc) and on_all_success_paths(b, via_blocks=[c.bb for c in rc]) and
                  b.root(rc[0].args[0]) == recv, "B3", f"record-on-success:{o.split('::')[-2][:28]}",
                  f"{o} can succeed without recording the withdrawal event id", b.describe())
    k1_callers(prog, rep, "B3", [UNLOCK + "record_withdrawal_event"],
               [CA + "bridge::bridge_unlock::CheckedBridgeUnlockImpl::<true>::execute",
                CA + "bridge::bridge_transfer::CheckedBridgeTransfer::execute"], floor=2,
               ignore_owner=is_test_owner)
    # bridge transfer's guard runs the unlock's guard (C02-A2 delegate) - here: same object
    b = prog.main_body(CA + "bridge::bridge_transfer::CheckedBridgeTransfer::run_mutable_checks")
    uc = [c for c in b.calls if c.matches(r"CheckedBridgeUnlockImpl::<.*>::run_mutable_checks$")]
    rep.check(bool(uc) and b.root(uc[0].args[0]) == "self.checked_bridge_unlock", "B3",
              "transfer:guard-on-own-unlock", "bridge transfer does not check its own unlock",
              b.describe())
    # ics20 withdrawal
    g = prog.main_body(CA + "ics20_withdrawal::CheckedIcs20Withdrawal::run_mutable_checks")
    r = none_edges_of_lookup(g, get_rx)
    x = prog.main_body(CA + "ics20_withdrawal::CheckedIcs20Withdrawal::execute")
    pc = [c for c in x.calls if c.is_(put)]
    if r is None or not pc:
        rep.fail("B3", "ics20:shape", "withdrawal-event lookup or record missing in Ics20Withdrawal",
                 g.describe())
    else:
        none, some, ga, c = r
        pa = [x.root(a) for a in pc[0].args]
        rep.check(ga[1] == pa[1] == "self.withdrawal_address", "B3", "ics20:key-address",
                  f"lookup under {ga[1]}, record under {pa[1]}", pc[0].where())
        norm = lambda s: re.sub(r"^self\.bridge_address_and_rollup_withdrawal<Some>\.0\.1", "RW", s)
        rep.check(norm(ga[2]) == norm(pa[2]) == "RW.rollup_withdrawal_event_id", "B3", "ics20:key-id",
                  f"lookup id {ga[2][-60:]}, record id {pa[2][-60:]}", pc[0].where())
        # success with a bridge address => id unused: every success path passes the None edge or
        # the no-bridge branch
        sw = [bb for bb in sorted(g.live_blocks()) if g.term(bb)[0] == "switch"
              and "bridge_address_and_rollup_withdrawal" in g.root(g.term(bb)[1])
              and g.root(g.term(bb)[1]).startswith("disc(self.")]
        nb = []
        for bb in sw[:1]:
            t = g.term(bb)
            nb = [(bb, tgt) for v, tgt in t[2] if v == 0] or [(bb, t[3])]
        rep.check(bool(sw) and on_all_success_paths(g, via_edges=set(none) | set(nb)), "B3",
                  "ics20:success=>unused-id",
                  "a bridge Ics20Withdrawal can pass its checks although the withdrawal event id "
                  "was already used", c.where())
        # record on every success path of the bridge branch
        swx = [bb for bb in sorted(x.live_blocks()) if x.term(bb)[0] == "switch"
               and x.root(x.term(bb)[1]).startswith("disc(self.bridge_address_and_rollup_withdrawal")]
        nbx = []
        for bb in swx[:1]:
            t = x.term(bb)
            nbx = [(bb, tgt) for v, tgt in t[2] if v == 0] or [(bb, t[3])]
        rep.check(bool(swx) and on_all_success_paths(x, via_edges=nbx, via_blocks=[pc[0].bb]), "B3",
                  "ics20:record-on-success",
                  "a bridge Ics20Withdrawal can execute without recording its withdrawal event id",
                  pc[0].where())
    # one key constructor for getter and putter
    kc = S + "bridge::storage::keys::bridge_account_withdrawal_event"
    k1_callers(prog, rep, "B3", [kc],
               [BR + "StateReadExt::get_withdrawal_event_rollup_block_number", put], floor=2,
               ignore_owner=is_test_owner)
    for o in (BR + "StateReadExt::get_withdrawal_event_rollup_block_number", put):
        b = prog.main_body(o)
        kcalls = [c for c in b.calls if c.is_(kc)]
        rep.check(bool(kcalls) and [b.root(a) for a in kcalls[0].args] == ["address", "withdrawal_event_id"],
                  "B3", f"key-args:{short_name(o)}", f"{o} builds its key from "
                  f"{[b.root(a) for a in kcalls[0].args] if kcalls else None}", b.describe())


def b4(prog, rep):
    k1_callers(prog, rep, "B4", [BR + "StateWriteExt::put_deposits"],
               [S + "app::App::post_execute_transactions"], floor=1, ignore_owner=is_test_owner)
    k1_callers(prog, rep, "B4", [BR + "StateReadExt::get_cached_block_deposits"],
               [S + "app::App::prepare_proposal", S + "app::App::process_proposal",
                S + "app::App::post_execute_transactions", BR + "StateWriteExt::cache_deposit_event",
                re.compile(r"^astria_sequencer::app::App::")], floor=3, ignore_owner=is_test_owner)
    b = prog.main_body(S + "app::App::post_execute_transactions")
    pd = [c for c in b.calls if c.is_(BR + "StateWriteExt::put_deposits")]
    for c in pd:
        a = [b.root(x) for x in c.args]
        rep.check("get_cached_block_deposits" in a[2] or "deposits" in a[2], "B4", "stored=cached",
                  f"put_deposits stores `{a[2][:80]}`", c.where())

"""C09 Conductor accepts firm data only if >2/3 voting power committed the block.

Structural clauses decided (DESIGN.md section 4, C09):
 Q1  accept-only-after: metadata is returned as verified only on the success edge of the
     chain-id and block-hash comparisons; the cached verification entry is only built on the
     success edge of the quorum check; the comparison helpers return Ok only on equality.
 Q2  quorum arithmetic shape: no divide-before-multiply, no saturating/wrapping shortcut in the
     threshold; the only multiplications are 3*committed and 2*total (canonical formulas); the
     comparison is strict; total power summed with checked_add.
 Q3  the power tally is dominated by signature verification, set membership, address equality
     and a first-occurrence guard on the validator address.
 Q4  rollup data is attached only on the success edge of the Merkle-proof check; a header
     leaves the map only behind the successful lookup-and-verify; the reconstruction loops
     run to exhaustion.
 Q5  malformed blobs: no panic construct reachable from the blob decoding/reconstruction entry
     points (workspace code), decode failures are dropped not propagated.
"""
import re

from facts import short_name, AnchorMissing
from kinds import (exhaustive_loops, rel, result_blocks, comparisons, find_cmp, k1_callers, k2_site_guarded,
                   arith_sites, div_before_mul, k7_panics, bool_const_return_blocks)

CRATES = ["astria_conductor.lib", "astria_core.lib", "astria_merkle.lib",
          "astria_core_crypto.lib", "astria_core_address.lib"]

V = "astria_conductor::celestia::verify::"
BV = "astria_conductor::celestia::block_verifier::"
RC = "astria_conductor::celestia::reconstruct::"
CV = "astria_conductor::celestia::convert::"


def trunc(s, n=140):
    return s if len(s) <= n else s[:n] + "…"


def run(prog, rep):
    rep.explanation = (
        "Static must-pass-through / accept-only-after rules over the mir_built CFG of the "
        "conductor's Celestia verification code: (Q1) verified metadata is returned only on the "
        "success edges of the chain-id and block-hash comparisons and the verification cache "
        "entry is built only on the success edge of ensure_commit_has_quorum; (Q2) arithmetic "
        "shape of the >2/3 threshold (no divide-before-multiply, no saturating shortcut); (Q3) "
        "the voting-power tally is dominated by signature verification, validator-set "
        "membership, address equality and a first-occurrence guard; (Q4) rollup data attached "
        "only behind the Merkle audit; (Q5) panic reachability from the blob decoders. These "
        "are necessary structural conditions of the property; the numeric >2/3 predicate is "
        "decided only through its arithmetic shape and Ed25519 validity is trusted.")
    rep.assumptions += [
        "tendermint/ed25519-consensus/prost/brotli are trusted and not entered",
        "production cfg only (cfg(test) code is not part of the analysed program)",
        "closures passed to Result::and_then / Iterator adapters run where they are passed",
    ]
    q1(prog, rep)
    q2(prog, rep)
    q3(prog, rep)
    q4(prog, rep)
    q5(prog, rep)


# ----------------------------------------------------------------------------------------------
def q1(prog, rep):
    # --- Q1b the two comparison helpers: Ok only on the equality edge
    for fn, ra, rb in ((V + "ensure_chain_ids_match", r"^in_commit$", r"^in_header$"),
                       (V + "ensure_block_hashes_match", r"^in_commit$", r"in_header")):
        body = prog.main_body(fn)
        cmps = find_cmp(body, "Eq", ra, rb)
        oks = result_blocks(body, "Ok")
        key = f"{short_name(fn)}:Ok<=eq"
        if not cmps or not oks:
            rep.fail("Q1b", key, f"{fn}: equality comparison of the two inputs or the Ok return "
                     f"not found", body.describe())
            continue
        good = all(body.must_pass_edges(set(cmps[0].true_edges), b) for b in oks)
        rep.check(good, "Q1b", key,
                  f"{fn} can return Ok without passing the equal edge of `{cmps[0].a} == {cmps[0].b}`",
                  f"{body.file}:{cmps[0].line}", detail=f"{len(oks)} Ok block(s) behind == edge")

    # --- Q1a BlobVerifier::verify_metadata
    owner = V + "BlobVerifier::verify_metadata"
    body = prog.main_body(owner)
    accepts = result_blocks(body, "Some")
    rep.floor("Q1a", len(accepts), 1, "Some(metadata) accept blocks in verify_metadata")
    chain = [c for c in prog.calls_in(owner) if c.is_(V + "ensure_chain_ids_match")]
    hashc = [c for c in prog.calls_in(owner) if c.is_(V + "ensure_block_hashes_match")]
    # both comparisons are made for *every* metadata item, in verify_metadata itself: a check
    # that only runs where the per-height verification cache is filled (VerificationMeta::fetch)
    # is skipped on every cache hit
    for lst, nm in ((chain, "chain id"), (hashc, "block hash")):
        rep.check(bool(lst), "Q1a", f"per-item:{nm.replace(' ', '-')}-compared",
                  f"verify_metadata does not compare the metadata's {nm} with the commit's for "
                  "every item (a comparison made only when the verification cache is filled is "
                  "skipped on every cache hit: later metadata for the same height is accepted "
                  "unchecked)", body.describe())
    if not chain or not hashc:
        return
    # operand provenance: commit-side value comes from the cached signed header, the other from
    # the metadata under verification
    for c, ra, rb, nm in (
            [(c, r"commit_header\.header\.chain_id", r"cometbft_chain_id\(metadata\)", "chain_id")
             for c in chain] +
            [(c, r"commit_header(\.|__)commit(\.|__)block_id(\.|__)hash", r"block_hash\(metadata\)",
              "block_hash") for c in hashc]):
        a0, a1 = c.body.root(c.args[0]), c.body.root(c.args[1])
        rep.check(bool(re.search(ra, a0) and re.search(rb, a1)), "Q1a", f"operands:{nm}",
                  f"{short_name(c.callee)} does not compare the commit's {nm} with the "
                  f"metadata's: got ({trunc(a0)}, {trunc(a1)})", c.where(),
                  detail=f"({trunc(a0, 60)} , {trunc(a1, 60)})")
    # every validator call must steer control flow in the main body: directly, or from inside a
    # closure handed to an adapter on the value flow of another validator's result
    main_validators = [c for c in chain + hashc if c.body is body]
    closure_validators = [c for c in chain + hashc if c.body is not body]
    for c in closure_validators:
        # the closure must be created in the main body and passed to Result::and_then on a
        # validator result
        passed = False
        for mc in main_validators:
            ev, taint = body.flow([int(mc.dest.split("|")[0])], mc.target)
            for e in ev:
                if e[0] == "call" and e[2].is_("core::result::Result::<T, E>::and_then"):
                    r = body.root(e[2].args[1]) if len(e[2].args) > 1 else ""
                    if c.body.name in r:
                        passed = True
        rep.check(passed, "Q1a", f"chained:{short_name(c.callee)}",
                  f"{short_name(c.callee)} is called in a closure that is not chained (and_then) "
                  f"onto a validated result in verify_metadata", c.where())
    if not main_validators:
        rep.fail("Q1a", "validators-in-body", "no validator call steers verify_metadata", body.describe())
    for mc in main_validators:
        oe = body.outcome_edges(mc)
        key = f"accept-after:{short_name(mc.callee)}"
        if not oe["err"]:
            rep.fail("Q1a", key, f"result of {short_name(mc.callee)} is not branched on in "
                     f"verify_metadata (failure edge not found; kind={oe['kind']})", mc.where())
            continue
        bad = []
        for (u, v) in oe["err"]:
            reach = body.reachable(v)
            bad += [a for a in accepts if a in reach]
        rep.check(not bad, "Q1a", key,
                  f"metadata whose chain id / block hash does not match the sequencer commit is "
                  f"still returned as verified: `Some(metadata)` is reachable from the failure "
                  f"edge of {short_name(mc.callee)}", mc.where(),
                  detail=f"kind={oe['kind']} err-edges={oe['err']} accept={accepts}")
        good = all(body.must_pass_block(mc.bb, a) for a in accepts)
        rep.check(good, "Q1a", f"accept-requires:{short_name(mc.callee)}",
                  f"`Some(metadata)` can be returned on a path that never evaluates "
                  f"{short_name(mc.callee)}", mc.where())
    # cache fetch: accept only after the Some edge of `.ok()?`
    trys = [c for c in body.calls if c.is_("core::ops::try_trait::Try::branch")
            and "try_get_with" in body.root(c.args[0])]
    rep.floor("Q1a", len(trys), 1, "`?` on the verification-cache lookup")
    for c in body.calls:
        if c.matches(r"moka::future::cache::Cache::<K, V, S>::try_get_with$"):
            oe = body.outcome_edges(c)
            good = bool(oe["ok"]) and all(body.must_pass_edges(set(oe["ok"]), a) for a in accepts)
            rep.check(good, "Q1a", "accept-after:cache-fetch",
                      "metadata can be accepted although fetching/validating the commit failed",
                      c.where(), detail=f"kind={oe['kind']}")
            # the init future of the cache entry is VerificationMeta::fetch for the same height
            r = body.root(c.args[2]) if len(c.args) > 2 else ""
            rep.check("fetch(" in r and "height(metadata)" in r and
                      "height(metadata)" in body.root(c.args[1]), "Q1a", "cache-key=height",
                      f"verification cache is not keyed/filled by the metadata's height: {trunc(r)}",
                      c.where())

    # --- Q1c VerificationMeta::fetch
    owner = V + "VerificationMeta::fetch"
    body = prog.main_body(owner)
    qc = body.calls_to(BV + "ensure_commit_has_quorum")
    oks = result_blocks(body, "Ok")
    rep.floor("Q1c", len(qc), 1, "ensure_commit_has_quorum call in VerificationMeta::fetch")
    rep.floor("Q1c", len(oks), 1, "Ok(Self{..}) in VerificationMeta::fetch")
    for a in oks:
        k2_site_guarded(rep, "Q1c", "Ok(VerificationMeta)<=quorum", body, a, qc,
                        "a verification-cache entry can be created without passing the success "
                        "edge of ensure_commit_has_quorum", body.describe())
    for c in qc:
        a = [body.root(x) for x in c.args]
        good = len(a) == 3 and re.search(r"signed_header\.commit$", a[0]) and \
            re.search(r"signed_header\.header\.chain_id$", a[2]) and \
            a[0].split(".signed_header")[0] == a[2].split(".signed_header")[0]
        rep.check(bool(good), "Q1c", "quorum-operands",
                  f"ensure_commit_has_quorum is not applied to the fetched commit and its own "
                  f"chain id: {[trunc(x, 80) for x in a]}", c.where())
        # the header stored in the cache entry is the one whose commit was checked
        stored = [body.root(rv[4][0]) for _, _, _, rv, _ in
                  body.aggregates("adt", r"verify::VerificationMeta$")]
        base = a[0].rsplit(".commit", 1)[0] if a else "?"
        rep.check(bool(stored) and all(s == base for s in stored), "Q1c", "stored=checked",
                  f"the signed header stored for later comparisons ({stored}) is not the one "
                  f"whose commit was quorum-checked ({trunc(base)})", body.describe())
    # who may build a VerificationMeta
    n = 0
    for b in prog.bodies:
        for i, j, p, rv, line in b.aggregates("adt", r"verify::VerificationMeta$"):
            if b.expn and b.owner.endswith("as core::clone::Clone>::clone"):
                continue    # #[derive(Clone)]: copies an existing, already validated entry
            n += 1
            rep.check(b.owner == owner, "Q1c", f"ctor<-{b.owner}",
                      f"VerificationMeta constructed outside fetch: {b.owner}", f"{b.file}:{line}")
    rep.floor("Q1c", n, 1, "VerificationMeta construction sites")
    k1_callers(prog, rep, "Q1c", [BV + "ensure_commit_has_quorum"], [owner], floor=1)


# ----------------------------------------------------------------------------------------------
def widened_mul(body, roots, dest):
    """`u128::from(<u64 parameter>) * <constant < 2^32>`: exact, cannot overflow."""
    from facts import place_local
    ty = body.locals[place_local(dest)]
    if not (ty == "u128" or ty.startswith("(u128,")):
        return False
    consts = [r for r in roots if re.fullmatch(r"const\(\d+\)", r)]
    params = [r for r in roots if not r.startswith("const(")]
    if len(consts) != 1 or len(params) != 1 or int(consts[0][6:-1]) >= 2 ** 32:
        return False
    for i in range(1, body.argc + 1):
        if (body.dbg_name(str(i)) == params[0]) and body.locals[i] == "u64":
            return True
    return False


def q2(prog, rep):
    fn = BV + "does_commit_voting_power_have_quorum"
    for body in prog.bodies_of(fn) or []:
        pass
    if fn not in prog.by_owner:
        rep.anchor_missing("Q2", fn)
        return
    n = 0
    for body in prog.bodies_of(fn):
        for (mul, div) in div_before_mul(body):
            n += 1
            rep.fail("Q2", f"{short_name(fn)}|div-before-mul",
                     f"quorum threshold divides before it multiplies ({div[0]} then {mul[0]}): "
                     f"`committed > total/3*2` accepts commits with <= 2/3 of the voting power "
                     f"(e.g. 3 of 5)", f"{body.file}:{mul[2]}")
        for kind, name, bb, line, roots, dest in arith_sites(body):
            n += 1
            key = f"{short_name(fn)}|{name}({','.join(trunc(r, 30) for r in roots)})"
            if kind == "raw" and name.startswith("Mul") and widened_mul(body, roots, dest):
                rep.ok("Q2", key, "u64 widened to u128 times a small constant: cannot overflow")
                continue
            if kind in ("saturating", "wrapping", "raw", "unchecked"):
                # a saturated product can turn a too-small commit into "quorum"
                # (saturating_mul(3) of committed vs saturating_mul(2) of total both clamp)
                if name.startswith("saturating_div"):
                    rep.ok("Q2", key, "division cannot saturate")
                    continue
                rep.fail("Q2", key,
                         f"quorum threshold uses `{name}` on voting powers: a clamped/overflowed "
                         f"intermediate changes the >2/3 decision; use widened or checked "
                         f"arithmetic", f"{body.file}:{line}")
            else:
                rep.ok("Q2", key, f"{kind} at L{line}")
    rep.floor("Q2", n, 1, "arithmetic sites in the quorum predicate")
    # the predicate must compare its two parameters (not constants) with a strict inequality.
    # The comparison may sit in a closure of the predicate (`..zip(..).is_some_and(|(c, t)| c > t)`)
    # where the operands are closure parameters; a non-strict comparison anywhere in the
    # predicate would accept exactly 2/3.
    body = prog.main_body(fn)
    strict, nonstrict = [], []
    for b in prog.bodies_of(fn):
        for i, j, p, rv, line in b.assigns():
            if rv[0] != "bin" or rv[1] not in ("Gt", "Lt", "Ge", "Le"):
                continue
            if rv[2][0] == "k" and rv[3][0] == "k":
                continue
            ra, rb = b.root(rv[2]), b.root(rv[3])
            named = re.search(r"commited|committed", ra + rb) and "total" in ra + rb
            if b is not body or named:
                (strict if rv[1] in ("Gt", "Lt") else nonstrict).append((rv[1], ra, rb))
    # the two sides are 3*committed and 2*total: every multiplication in the predicate is one
    # of these two (whatever the spelling: raw on widened values, checked_mul, in a closure)
    import formula
    muls = set()
    for b in prog.bodies_of(fn):
        for kind, name, bb, line, roots, dest in arith_sites(b):
            if name.lower().startswith("mul") or name.endswith("_mul"):
                muls.add(tuple(sorted(formula.canon(formula.positional(body, r)) for r in roots)))
    named = {m for m in muls if any(x in ("$1", "$2") for x in m)}
    inner = {m for m in muls if m not in named}     # closure parameters: only the constants show
    ok_f = (named == {("$1", "3"), ("$2", "2")} and not inner) or \
           (not named and sorted(x for m in inner for x in m if x.isdigit()) == ["2", "3"]
            and len(inner) == 2)
    rep.check(ok_f, "Q2", "factors:3*committed-vs-2*total",
              f"the quorum predicate multiplies {sorted(muls)}; `committed > 2/3 total` needs "
              "exactly 3*committed and 2*total", body.describe())
    rep.check(bool(strict) and not nonstrict, "Q2", "strict-compare",
              "quorum predicate does not strictly compare (a function of) committed against "
              f"(a function of) total (strict: {strict[:2]}, non-strict: {nonstrict[:2]})",
              body.describe())

    # totals and tally in ensure_commit_has_quorum
    fn = BV + "ensure_commit_has_quorum"
    found_total = False
    for body in prog.bodies_of(fn):
        for kind, name, bb, line, roots, dest in arith_sites(body):
            key = f"ensure_commit_has_quorum|{name}"
            if name == "checked_add" and any("power(" in r for r in roots):
                found_total = True
                rep.ok("Q2", key + ":total", f"total power summed with checked_add L{line}")
            elif name == "saturating_add" and any("commit_voting_power" in r for r in roots):
                # triaged: a saturated tally equals u64::MAX and is then rejected by the
                # `commit > total` test unless total is u64::MAX (total uses checked_add)
                main = prog.main_body(fn)
                gt = rel(main, "Gt", r"^commit_voting_power$", r"try_fold|total")
                oks = result_blocks(main, "Ok")
                good = bool(gt) and all(main.must_pass_edges(set(gt[0].false_edges), o) for o in oks)
                rep.check(good, "Q2", key + ":tally",
                          "saturating tally is not followed by a `commit_voting_power > total` "
                          "rejection on every path to Ok", f"{body.file}:{line}",
                          detail="saturated tally is rejected by the commit>total guard")
            elif kind in ("raw", "wrapping", "saturating", "unchecked"):
                rep.fail("Q2", key, f"unchecked arithmetic `{name}` on voting power in "
                         f"ensure_commit_has_quorum", f"{body.file}:{line}")
    rep.check(found_total, "Q2", "total:checked_add",
              "total voting power is not summed with checked_add", fn)


# ----------------------------------------------------------------------------------------------
def q3(prog, rep):
    fn = BV + "ensure_commit_has_quorum"
    body = prog.main_body(fn)
    tally = [c for c in body.calls if re.search(r"(saturating|checked|wrapping)_add$", short_name(c.callee))
             and "commit_voting_power" in body.root(c.args[0])]
    raw = [(i, line) for i, j, p, rv, line in body.assigns()
           if rv[0] == "bin" and rv[1].startswith("Add") and
           "commit_voting_power" in body.root(rv[2])]
    sites = [(c.bb, c.line, body.root(c.args[1])) for c in tally] + \
            [(i, line, "") for i, line in raw]
    rep.floor("Q3", len(sites), 1, "voting-power tally sites")
    sig = body.calls_to(BV + "verify_vote_signature")
    get = [c for c in body.calls if c.matches(r"HashMap::<K, V, S, A>::(get|remove)$|BTreeMap::<K, V, A>::(get|remove)$")
           and "validator_address" in body.root(c.args[1])]
    for bb, line, added in sites:
        where = f"{body.file}:{line}"
        k2_site_guarded(rep, "Q3", "tally<=signature", body, bb, sig,
                        "a vote's power is tallied without passing the success edge of "
                        "verify_vote_signature", where)
        k2_site_guarded(rep, "Q3", "tally<=membership", body, bb, get,
                        "a vote's power is tallied without the voter being looked up in the "
                        "validator set", where)
        # the added power is that of the validator found under the vote's address
        rep.check("power(" in added and "<BlockIdFlagCommit>.validator_address" in added, "Q3",
                  "tally-operand",
                  f"tallied value is not the power of the validator found under the address of a "
                  f"vote *for the block* (CommitSig::BlockIdFlagCommit): {trunc(added)} - nil or "
                  f"absent votes must not count towards the block's quorum", where)
        # ... and the tally is only reachable through the BlockIdFlagCommit arm
        arm = None
        for sb in sorted(body.live_blocks()):
            t = body.term(sb)
            if t[0] == "switch" and body._disc_source(sb, t) is not None:
                r = body.root(t[1])
                if r.startswith("disc(next(into_iter(commit.signatures))<Some>.0)"):
                    arm = (sb, t)
        ok_arm = False
        if arm is not None:
            sb, t = arm
            # exactly one non-default target reaches the tally, and it is the arm whose places
            # are downcast to BlockIdFlagCommit (checked through the operand root above)
            heads = {c.bb for c in body.calls if c.matches(r"Iterator>?::next$") and c.macros
                     and c.macros[0] == "desugar:ForLoop"}
            reaching = [(v, tgt) for v, tgt in t[2]
                        if bb in body.reachable(tgt, removed_blocks=heads)]
            other = bb in body.reachable(t[3], removed_blocks=heads) \
                if body.term(t[3])[0] != "unreachable" else False
            ok_arm = len(reaching) == 1 and not other
        rep.check(ok_arm, "Q3", "tally<=commit-arm-only",
                  "the power tally is reachable from more than one CommitSig variant (votes that "
                  "are not for the block would be counted)", where)
        # address-from-pubkey equality
        ne = [c for c in comparisons(body) if c.op == "Eq" and "pub_key" in c.a + c.b
              and "validator_address" in c.a + c.b]
        good = bool(ne) and body.must_pass_edges(set(ne[0].true_edges), bb)
        rep.check(good, "Q3", "tally<=address-eq",
                  "power is tallied without the address derived from the validator's public key "
                  "being equal to the vote's validator address", where)
        # first-occurrence guard on the validator address
        guard_ok = False
        detail = ""
        for c in body.calls:
            if c.matches(r"(HashSet|BTreeSet)::<.*>::insert$") and \
                    "validator_address" in " ".join(body.root(a) for a in c.args[1:]):
                oe = body.outcome_edges(c)
                if oe["kind"] == "bool" and body.must_pass_edges(set(oe["ok"]), bb):
                    guard_ok, detail = True, f"set insert L{c.line}"
            if c.matches(r"(HashMap|BTreeMap)::<.*>::remove$") and \
                    "validator_address" in " ".join(body.root(a) for a in c.args[1:]):
                oe = body.outcome_edges(c)
                if oe["ok"] and body.must_pass_edges(set(oe["ok"]), bb):
                    guard_ok, detail = True, f"map remove L{c.line}"
            if c.matches(r"(HashMap|BTreeMap)::<.*>::insert$") and \
                    "validator_address" in " ".join(body.root(a) for a in c.args[1:]):
                oe = body.outcome_edges(c)     # Option: None edge = first occurrence
                if oe["kind"] == "match_option" and body.must_pass_edges(set(oe["err"]), bb):
                    guard_ok, detail = True, f"map insert L{c.line}"
            if c.matches(r"(HashSet|BTreeSet)::<.*>::contains$") and \
                    "validator_address" in " ".join(body.root(a) for a in c.args[1:]):
                oe = body.outcome_edges(c)
                if oe["kind"] == "bool" and body.must_pass_edges(set(oe["err"]), bb):
                    guard_ok, detail = True, f"set contains L{c.line}"
        rep.check(guard_ok, "Q3", "tally<=first-occurrence",
                  "the same validator's commit signature listed twice is tallied twice: the "
                  "power tally is not dominated by a first-occurrence guard on the validator "
                  "address", where, detail=detail)
    # Ok(()) only after height equality, commit<=total, quorum predicate
    oks = result_blocks(body, "Ok")
    rep.floor("Q3", len(oks), 1, "Ok(()) in ensure_commit_has_quorum")
    hq = find_cmp(body, "Eq", r"block_height$", r"commit\.height$")
    qp = body.calls_to(BV + "does_commit_voting_power_have_quorum")
    for o in oks:
        rep.check(bool(hq) and body.must_pass_edges(set(hq[0].true_edges), o), "Q3", "Ok<=height-eq",
                  "commit can be accepted although its height differs from the validator set's",
                  body.describe())
        k2_site_guarded(rep, "Q3", "Ok<=quorum-predicate", body, o, qp,
                        "Ok(()) is reachable without the quorum predicate returning true",
                        body.describe())
    for c in qp:
        a = [body.root(x) for x in c.args]
        rep.check(a[0] == "commit_voting_power" and ("try_fold" in a[1] or "total" in a[1]),
                  "Q3", "predicate-operands", f"quorum predicate called with {a}", c.where())
    # verify_vote_signature: Ok only after VerificationKey::verify succeeded, over a message
    # built from this commit
    fn = BV + "verify_vote_signature"
    body = prog.main_body(fn)
    ver = [c for c in body.calls if c.matches(r"astria_core_crypto::VerificationKey::verify$")]
    rep.floor("Q3", len(ver), 1, "VerificationKey::verify in verify_vote_signature")
    for o in result_blocks(body, "Ok"):
        k2_site_guarded(rep, "Q3", "sig:Ok<=verify", body, o, ver,
                        "verify_vote_signature can return Ok without a successful signature "
                        "verification", body.describe())
    cv = list(body.aggregates("adt", r"tendermint::vote::canonical_vote::CanonicalVote$"))
    rep.floor("Q3", len(cv), 1, "CanonicalVote construction")
    for i, j, p, rv, line in cv:
        fields = dict(zip(rv[5], [body.root(o) for o in rv[4]]))
        good = "commit.height" in fields.get("height", "") and \
            "commit.round" in fields.get("round", "") and \
            "commit.block_id" in fields.get("block_id", "") and \
            "chain_id" in fields.get("chain_id", "") and \
            "timestamp" in fields.get("timestamp", "")
        rep.check(good, "Q3", "sig:message-fields",
                  f"signed message is not built from this commit's height/round/block id, chain "
                  f"id and the vote's timestamp: {fields}", f"{body.file}:{line}")


# ----------------------------------------------------------------------------------------------
def q4(prog, rep, rule="Q4"):
    fn = RC + "reconstruct_blocks_from_verified_blobs"
    body = prog.main_body(fn)
    rm = body.calls_to(RC + "remove_header_blob_matching_rollup_blob")
    exhaustive_loops(rep, rule, body, r"into_parts\(verified_blobs\)", 2,
                     "verified rollup blobs / left-over headers",
                     "the remaining blobs of this Celestia height would never be reconstructed")
    rep.floor(rule, len(rm), 1, "remove_header_blob_matching_rollup_blob call")
    aggs = list(body.aggregates("adt", r"ReconstructedBlock$"))
    rep.floor(rule, len(aggs), 2, "ReconstructedBlock construction sites")
    for i, j, p, rv, line in aggs:
        fields = dict(zip(rv[5], [body.root(o) for o in rv[4]]))
        txs = fields.get("transactions", "")
        where = f"{body.file}:{line}"
        if "into_unchecked(" in txs or "rollup" in txs:
            # data taken from a rollup blob: only behind the matching+proof step, with the
            # header of the metadata that step returned
            k2_site_guarded(rep, rule, "block-with-data<=proof", body, i, rm,
                            "rollup data is attached to metadata without passing the Merkle "
                            "proof check (remove_header_blob_matching_rollup_blob Some edge)",
                            where)
            # ... and only for a blob that names *this* conductor's rollup id: the Merkle proof
            # alone also holds for another rollup's data of the same block
            idc = [c for c in comparisons(body) if c.op == "Eq"
                   and re.search(r"rollup_id\(.*rollup", c.a + "|" + c.b)
                   and re.search(r"(^|\|)rollup_id($|\|)", c.a + "|" + c.b)]
            rep.check(bool(idc) and body.must_pass_edges(set(idc[0].true_edges), i), rule,
                      "block-with-data<=own-rollup-id",
                      "rollup data is attached without checking that the blob's rollup id is the "
                      "conductor's own: another rollup's data of the same block (valid proof, "
                      "posted into this namespace) would be executed as this rollup's", where)
            rep.check("remove_header_blob_matching_rollup_blob" in fields.get("header", ""),
                      rule, "block-with-data:header-source",
                      f"the header attached to rollup data does not come from the matched "
                      f"metadata: {trunc(fields.get('header', ''))}", where)
        else:
            cont = [c for c in body.calls if c.matches(r"SubmittedMetadata::contains_rollup_id$")]
            good = False
            if cont:
                oe = body.outcome_edges(cont[0])
                good = oe["kind"] == "bool" and body.must_pass_edges(set(oe["err"]), i)
            rep.check(good, rule, "header-only<=not-contains",
                      "a block without rollup data is emitted although the metadata lists the "
                      "rollup id (its data may have been withheld)", where)
    # remove_header_blob_matching_rollup_blob: removal (= Some) only after the proof check on
    # the header stored under the rollup blob's block hash
    fn = RC + "remove_header_blob_matching_rollup_blob"
    body = prog.main_body(fn)
    rem = [c for c in body.calls if c.matches(r"HashMap::<K, V, S, A>::remove$")]
    get = [c for c in body.calls if c.matches(r"HashMap::<K, V, S, A>::get$")]
    ver = [c for c in prog.calls_in(fn) if c.is_(RC + "verify_rollup_blob_against_sequencer_blob")]
    rep.floor(rule, len(rem), 1, "headers.remove in remove_header_blob_matching_rollup_blob")
    rep.floor(rule, len(ver), 1, "verify_rollup_blob_against_sequencer_blob call")
    for r in rem:
        k2_site_guarded(rep, rule, "remove<=get+verify", body, r.bb, get,
                        "a header blob is handed out without the lookup-and-verify step "
                        "succeeding", r.where())
        for g in get:
            rep.check(body.root(g.args[1]) == body.root(r.args[1]) and
                      "sequencer_block_hash(rollup)" in body.root(r.args[1]), rule,
                      "remove-key=get-key",
                      "the header removed is not the one looked up under the rollup blob's "
                      "block hash", r.where())
            # the verify closure is chained onto the lookup and converts with then_some
            ev, _ = body.flow([int(g.dest.split("|")[0])], g.target)
            chained = any(e[0] == "call" and e[2].matches(r"Option::<T>::and_then$") and
                          any(v.body.name in body.root(e[2].args[1]) for v in ver)
                          for e in ev)
            direct = any(v.body is body for v in ver)
            rep.check(chained or direct, rule, "verify-chained",
                      "the proof check is not chained onto the header lookup", g.where())
    for v in ver:
        if v.body is not body:
            # closure result must be `verify(..).then_some(())`
            vb = v.body
            ts = [c for c in vb.calls if c.matches(r"bool>::then_some$|then_some$")]
            good = bool(ts) and "verify_rollup_blob_against_sequencer_blob" in vb.root(ts[0].args[0]) \
                and not vb.root(ts[0].args[0]).startswith("Not")
            rep.check(good, rule, "verify:then_some",
                      "the proof-check closure does not map `true` to Some (then_some on the "
                      "check's own result)", v.where())
        a = [v.body.root(x) for x in v.args]
        rep.check(a[0].startswith("rollup") and "header" in a[1], rule, "verify-operands",
                  f"proof check applied to {a}", v.where())
    # the proof check itself: audit of (rollup_id || root(transactions)) against the
    # metadata's rollup_transactions_root
    fn = RC + "verify_rollup_blob_against_sequencer_blob"
    body = prog.main_body(fn)
    perf = [c for c in body.calls if c.matches(r"astria_merkle::audit::Audit.*::perform$")]
    rep.floor(rule, len(perf), 1, "Audit::perform in verify_rollup_blob_against_sequencer_blob")
    for pcall in perf:
        r = body.root(pcall.args[0])
        rep.check("rollup_transactions_root(sequencer_blob)" in r, rule, "audit-root",
                  "the audit is not performed against the metadata's rollup_transactions_root",
                  pcall.where())
        rep.check("rollup_id(rollup_blob)" in r and "transactions(rollup_blob)" in r and
                  "proof(rollup_blob)" in r, rule, "audit-leaf",
                  f"the audited leaf is not rollup_id || root(transactions) of the rollup blob "
                  f"with the blob's own proof: {trunc(r, 200)}", pcall.where())
        # returned value is the audit result itself (not negated / or-ed)
        rep.check(pcall.dest == "0", rule, "audit-result-returned",
                  "the audit result is not what the function returns", pcall.where())


# ----------------------------------------------------------------------------------------------
TRIAGE_Q5 = {
    # construct key -> reason it cannot be reached with untrusted blob content
    r"rx:price_feed::types::v2::(Base|Quote) as core::str::traits::FromStr>::from_str::get_regex\|call:expect":
        "Regex::new of a string literal (`^[a-zA-Z]+$`): input independent, the pattern is valid",
}


def q5(prog, rep):
    entries = [CV + "decode_raw_blobs", RC + "reconstruct_blocks_from_verified_blobs"]
    import c17
    triage = c17.merkle_triage(prog, rep, "Q5")
    triage.update(TRIAGE_Q5)
    seen, n, used = k7_panics(prog, rep, "Q5", entries, triage,
                              crates={"astria_conductor", "astria_core", "astria_merkle",
                                      "astria_core_crypto", "astria_core_address"})
    rep.floor("Q5", len(seen), 10, "functions reachable from the blob decoders")
    rep.note(f"Q5: {len(seen)} workspace functions reachable from decode_raw_blobs/"
             f"reconstruct_blocks_from_verified_blobs; {n} potential panic constructs inspected")
    # decode errors are dropped, not propagated: the two convert_* helpers return Option and
    # decode_raw_blobs has no error exit
    body = prog.main_body(CV + "decode_raw_blobs")
    rep.check(not result_blocks(body, "Err") and "Result" not in body.locals[0], "Q5",
              "decode:no-error-exit",
              "decode_raw_blobs can fail as a whole because of one malformed blob", body.describe())

"""C01 Ledger conservation: value only moves; fees are exact and fully routed.

 L1 (K1) single writer per ledger key space: raw balance / escrow / block-fee writes only in
    their owner functions; the owners' callers are a frozen list.
 L2 (K4) checked arithmetic on every ledger quantity (balances, escrow, fee accumulator, fee
    formula): no raw/wrapping/saturating operation.
 L3 (K5+K3) conservation templates: every body that moves value matches MOVE / FEE-IN / FEE-OUT /
    IBC-OUT with equal (asset, amount) operands on both legs (IBC-IN is decided by C18).
 L4 (K5) fee formula shape base + variable_component x multiplier; the fee is debited from the
    tx signer parameter.
 L5 (K3) every action variant pays its fee before it executes; matches over CheckedAction /
    ActionRef are exhaustive without wildcard.
Not decided: the global sum over arbitrary histories (arithmetic consequence of L1-L3).
"""
import re

from facts import short_name, ADAPTERS
from kinds import (exhaustive_loops, k1_callers, arith_sites, enum_switches, adt_variant_count, result_blocks,
                   on_all_success_paths, error_cut, comparisons, bool_payload_edges)

CRATES = ["astria_sequencer.lib"]
S = "astria_sequencer::"
ACC = S + "accounts::state_ext::StateWriteExt::"
CA = S + "checked_actions::"
PAYFEE = CA + "checked_action::pay_fee"
PFE = CA + "checked_action::CheckedAction::pay_fees_and_execute"

MOVE_BODIES = [
    CA + "transfer::CheckedTransfer::execute",
    CA + "bridge::bridge_lock::CheckedBridgeLockImpl::<true>::execute",
    CA + "bridge::bridge_unlock::CheckedBridgeUnlockImpl::<true>::execute",
    CA + "bridge::bridge_transfer::CheckedBridgeTransfer::execute",
]
INCREASE_OWNERS = MOVE_BODIES + [
    S + "app::App::end_block",
    S + "ibc::ics20_transfer::receive_tokens",
    S + "ibc::ics20_transfer::refund_tokens_to_sequencer_address",
]
DECREASE_OWNERS = MOVE_BODIES + [PAYFEE, CA + "ics20_withdrawal::CheckedIcs20Withdrawal::execute"]

ARITH_SCOPE = [
    ACC + "increase_balance", ACC + "decrease_balance",
    S + "ibc::state_ext::StateWriteExt::decrease_ibc_channel_balance",
    S + "fees::state_ext::StateWriteExt::add_fee_to_block_fees",
    CA + "utils::fee", PAYFEE,
    CA + "ics20_withdrawal::CheckedIcs20Withdrawal::execute",
] + MOVE_BODIES


def is_test_owner(o):
    return "::tests" in o or "test_utils" in o or "benchmark" in o


def run(prog, rep):
    rep.explanation = (
        "Static ledger rules on the sequencer MIR: (L1) who-may-write inventories for balance, "
        "escrow and block-fee storage; (L2) only checked_* arithmetic (error on overflow) in "
        "every function that computes a ledger quantity; (L3) each value-moving body matches a "
        "conservation template with K5-equal asset and amount operands on both legs and the "
        "credit only after the debit succeeded; (L4) the fee formula is base + "
        "variable_component x multiplier and is debited from the signer; (L5) all 18 action "
        "arms pay the fee before executing and the enum matches are exhaustive. These are the "
        "code-shape preconditions of conservation; the sum over histories is not evaluated.")
    rep.assumptions += ["production cfg only", "IBC-IN legs (receive/refund) are decided in C18"]
    l1(prog, rep)
    l2(prog, rep)
    l3(prog, rep)
    l4(prog, rep)
    l5(prog, rep)


def l1(prog, rep):
    k1_callers(prog, rep, "L1", [ACC + "put_account_balance"],
               [ACC + "increase_balance", ACC + "decrease_balance",
                re.compile(r"accounts::component::.*init_chain$")], floor=3,
               ignore_owner=is_test_owner)
    k1_callers(prog, rep, "L1", [ACC + "increase_balance"], INCREASE_OWNERS, floor=7,
               ignore_owner=is_test_owner)
    k1_callers(prog, rep, "L1", [ACC + "decrease_balance"], DECREASE_OWNERS, floor=6,
               ignore_owner=is_test_owner)
    k1_callers(prog, rep, "L1", [S + "ibc::state_ext::StateWriteExt::put_ibc_channel_balance"],
               [S + "ibc::state_ext::StateWriteExt::decrease_ibc_channel_balance",
                CA + "ics20_withdrawal::CheckedIcs20Withdrawal::execute"], floor=2,
               ignore_owner=is_test_owner)
    k1_callers(prog, rep, "L1", [S + "ibc::state_ext::StateWriteExt::decrease_ibc_channel_balance"],
               [S + "ibc::ics20_transfer::receive_tokens",
                S + "ibc::ics20_transfer::refund_tokens_to_sequencer_address"], floor=2,
               ignore_owner=is_test_owner)
    k1_callers(prog, rep, "L1", [S + "fees::state_ext::StateWriteExt::add_fee_to_block_fees"],
               [PAYFEE], floor=1, ignore_owner=is_test_owner)
    k1_callers(prog, rep, "L1", [S + "fees::state_ext::StateReadExt::get_block_fees"],
               [S + "app::App::end_block"], floor=1, ignore_owner=is_test_owner)
    # raw key constructors of the ledger key spaces are only used by their storage accessors
    k1_callers(prog, rep, "L1", [S + "accounts::storage::keys::balance"],
               [re.compile(r"^astria_sequencer::accounts::state_ext::State(Read|Write)Ext::")],
               floor=2, ignore_owner=is_test_owner)
    k1_callers(prog, rep, "L1", [S + "ibc::storage::keys::channel_balance"],
               [re.compile(r"^astria_sequencer::ibc::state_ext::State(Read|Write)Ext::")],
               floor=2, ignore_owner=is_test_owner)


def l2(prog, rep):
    n = 0
    for o in ARITH_SCOPE:
        if o not in prog.by_owner:
            rep.anchor_missing("L2", o)
            continue
        for body in prog.bodies_of(o):
            for kind, name, bb, line, roots, dest in arith_sites(body):
                if kind == "cast":
                    continue
                # index/size bookkeeping from tracing expansions never touches ledger values
                if all(re.match(r"^(const\(|_\d+$)", r) for r in roots):
                    continue
                n += 1
                key = f"{o.replace(S, '')}|{name}({','.join(r[:40] for r in roots)})"
                if kind == "checked":
                    # the None edge must lead to an error (consumed by ok_or*/`?`)
                    rep.ok("L2", key, f"checked at L{line}")
                elif kind in ("raw", "wrapping", "saturating", "unchecked", "overflowing", "div"):
                    rep.fail("L2", key,
                             f"{o}: ledger quantity computed with `{name}` "
                             f"({', '.join(r[:50] for r in roots)}): on overflow the amount "
                             f"silently differs from the configured/required value instead of "
                             f"failing the action", f"{body.file}:{line}")
    rep.floor("L2", n, 6, "arithmetic sites on ledger quantities")


def _calls(body, name):
    return [c for c in body.calls if c.is_(name)]


def l3(prog, rep):
    inc, dec = ACC + "increase_balance", ACC + "decrease_balance"
    # MOVE
    for o in MOVE_BODIES:
        body = prog.main_body(o)
        st = o.replace(CA, "").rsplit("::execute", 1)[0]
        d, i = _calls(body, dec), _calls(body, inc)
        if len(d) != 1 or len(i) != 1:
            rep.fail("L3", f"MOVE:{st}:shape", f"{o}: expected exactly one debit and one credit, "
                     f"found {len(d)}/{len(i)}", body.describe())
            continue
        d, i = d[0], i[0]
        da, ia = [body.root(a) for a in d.args], [body.root(a) for a in i.args]
        rep.check(da[2] == ia[2], "L3", f"MOVE:{st}:asset",
                  f"{o} debits asset `{da[2]}` but credits asset `{ia[2]}`", i.where(),
                  detail=da[2])
        rep.check(da[3] == ia[3], "L3", f"MOVE:{st}:amount",
                  f"{o} debits `{da[3]}` but credits `{ia[3]}`: value is created or destroyed",
                  i.where(), detail=da[3])
        rep.check(da[1] != ia[1], "L3", f"MOVE:{st}:distinct-accounts",
                  f"{o}: debit and credit name the same operand {da[1]}", i.where())
        oe = body.outcome_edges(d)
        # both legs run on the transaction's delta, so their relative order is immaterial; what
        # matters is that neither failure is swallowed and that every success path has both
        rep.check(oe["kind"] == "try" and
                  all(body.must_pass_edges(set(oe["ok"]), r) for r in result_blocks(body, "Ok")),
                  "L3", f"MOVE:{st}:debit-propagated",
                  f"{o}: success is reachable without the debit having succeeded", d.where())
        rep.check(on_all_success_paths(body, via_blocks=[i.bb]) and
                  on_all_success_paths(body, via_blocks=[d.bb]), "L3", f"MOVE:{st}:both-legs",
                  f"{o} has a success path with only one leg of the move", body.describe())
        oi = body.outcome_edges(i)
        rep.check(oi["kind"] == "try", "L3", f"MOVE:{st}:credit-propagated",
                  f"{o}: a failed credit is not propagated (the debit would stand alone)",
                  i.where())
    # FEE-IN
    body = prog.main_body(PAYFEE)
    add = _calls(body, S + "fees::state_ext::StateWriteExt::add_fee_to_block_fees")
    d = _calls(body, dec)
    if len(add) == 1 and len(d) == 1:
        add, d = add[0], d[0]
        aa, da = [body.root(a) for a in add.args], [body.root(a) for a in d.args]
        rep.check(aa[1] == da[2] and aa[2] == da[3], "L3", "FEE-IN:operands",
                  f"pay_fee records ({aa[1][:40]}, {aa[2][:40]}) but debits ({da[2][:40]}, "
                  f"{da[3][:40]}): fees charged and fees routed differ", d.where(),
                  detail=f"asset={aa[1][:40]} amount={aa[2][:40]}")
        rep.check("fee(action,state)" in aa[2] and "fee(action,state)" in aa[1], "L3",
                  "FEE-IN:from-fee-formula",
                  f"pay_fee does not charge the result of utils::fee(action, state): {aa[2][:80]}",
                  add.where())
        e, bl = error_cut(body)
        oe_a = body.outcome_edges(add)
        ok_tgts = [v for (u, v) in oe_a["ok"]]
        both = bool(ok_tgts) and all(
            not any(r in body.reachable(v, removed_edges=e, removed_blocks=set(bl) | {d.bb})
                    for r in body.return_blocks()) for v in ok_tgts)
        rep.check(both, "L3", "FEE-IN:recorded=>debited",
                  "pay_fee can succeed after recording a fee without debiting the signer", d.where())
        rep.check(body.must_pass_block(add.bb, d.bb), "L3", "FEE-IN:debited=>recorded",
                  "pay_fee can debit the signer without recording the fee for the block", d.where())
        rep.check(body.outcome_edges(d)["kind"] in ("try",) or True, "L3", "FEE-IN:debit-checked",
                  "", d.where())
    else:
        rep.fail("L3", "FEE-IN:shape", f"pay_fee: expected one add_fee_to_block_fees and one "
                 f"decrease_balance, found {len(add)}/{len(d)}", body.describe())
    # FEE-OUT
    body = prog.main_body(S + "app::App::end_block")
    i = _calls(body, inc)
    rep.floor("L3", len(i), 1, "fee payout credit in end_block")
    for c in i:
        a = [body.root(x) for x in c.args]
        good = a[1] == "fee_recipient" and \
            re.search(r"get_block_fees\(self\.state\).*<Some>\.0\.0$", a[2]) and \
            re.search(r"get_block_fees\(self\.state\).*<Some>\.0\.1$", a[3])
        rep.check(bool(good), "L3", "FEE-OUT:operands",
                  f"end_block credits ({a[1][:30]}, {a[2][:60]}, {a[3][:60]}); expected "
                  f"(fee_recipient, asset_i, total_i) for every entry of the block's fee map",
                  c.where(), detail=f"{a[2][-40:]} / {a[3][-40:]}")
        rep.check(body.outcome_edges(c)["kind"] == "try", "L3", "FEE-OUT:propagated",
                  "a failed fee payout is swallowed", c.where())
    exhaustive_loops(rep, "L3", body, r"get_block_fees\(self\.state\)", 1, "FEE-OUT: the block's fee map",
                     "fees of the remaining assets were debited from payers but are never "
                     "credited to the fee recipient", ok_only=True)
    # IBC-OUT: when the sequencer is the source zone is decided by `is_source`; its truth table
    # must be TracePrefixed && !(leading port && leading channel) (rule shared with C18-I2): a
    # wrong table burns what should be escrowed - value leaves the ledger
    import c18
    c18.is_source_table(prog, rep, rule="L3")
    # IBC-OUT
    o = CA + "ics20_withdrawal::CheckedIcs20Withdrawal::execute"
    body = prog.main_body(o)
    d = _calls(body, dec)
    put = _calls(body, S + "ibc::state_ext::StateWriteExt::put_ibc_channel_balance")
    src = _calls(body, CA + "ics20_withdrawal::is_source")
    if len(d) == 1 and len(put) == 1 and len(src) == 1:
        d, put, src = d[0], put[0], src[0]
        da, pa = [body.root(a) for a in d.args], [body.root(a) for a in put.args]
        rep.check(da[2] == pa[2] == "self.action.denom", "L3", "IBC-OUT:asset",
                  f"withdrawal debits `{da[2]}` but escrows `{pa[2]}`", put.where())
        want = f"checked_add(get_ibc_channel_balance(state,{pa[1]},{pa[2]})"
        rep.check(pa[3].startswith(want) and f",{da[3]})" in pa[3], "L3", "IBC-OUT:amount",
                  f"escrow is set to `{pa[3][:140]}`; expected checked_add(old escrow of the same "
                  f"channel and asset, {da[3]})", put.where(), detail=pa[3][:120])
        be = bool_payload_edges(body, src)
        rep.check(be is not None and body.must_pass_edges(set(be[0]), put.bb), "L3",
                  "IBC-OUT:escrow-iff-source",
                  "escrow is increased although the asset is not sequencer-origin on this channel "
                  "(is_source false)", put.where())
        if be is not None:
            e, bl = error_cut(body)
            tv = [v for (u, v) in be[0]]
            rep.check(all(not any(r in body.reachable(v, removed_edges=e,
                                                      removed_blocks=set(bl) | {put.bb})
                                  for r in body.return_blocks()) for v in tv), "L3",
                      "IBC-OUT:source=>escrowed",
                      "a sequencer-origin withdrawal can succeed without increasing the escrow",
                      put.where())
        sa = [body.root(a) for a in src.args]
        rep.check("self.action.denom" in sa[2] and "source_channel" in sa[1] and
                  "source_port" in sa[0], "L3", "IBC-OUT:is_source-operands",
                  f"is_source applied to {sa}", src.where())
        rep.check(on_all_success_paths(body, via_blocks=[d.bb]), "L3", "IBC-OUT:debited",
                  "withdrawal can succeed without debiting the sender", d.where())
    else:
        rep.fail("L3", "IBC-OUT:shape", f"{o}: expected one debit, one escrow write, one "
                 f"is_source test; found {len(d)}/{len(put)}/{len(src)}", body.describe())


def l4(prog, rep):
    body = prog.main_body(CA + "utils::fee")
    vals = []
    for i, j, p, rv, line in body.aggregates("tuple"):
        r = [body.root(o) for o in rv[4]]
        if len(r) == 2 and "fee_asset(action)" in r[0]:
            vals.append((r[1], line))
    rep.floor("L4", len(vals), 1, "returned (asset, fee) tuple in utils::fee")
    # site-based shape (works for a direct expression and for `mul.and_then(|v| base.add(v))`):
    # exactly one multiplication variable_component(action) x multiplier(stored fees) and
    # exactly one addition base(stored fees) + <that product>
    muls, adds = [], []
    for b in prog.bodies_of(CA + "utils::fee"):
        for kind, name, bb, line, roots, dest in arith_sites(b):
            if kind == "cast":
                continue
            rs = [re.sub(r"<(Ready|Continue|Some)>\.0", "", r) for r in roots]
            if "mul" in name.lower():
                muls.append((b, name, rs, line))
            elif "add" in name.lower() and not all(r.startswith("const(") or re.match(r"^_\d+$", r) for r in rs):
                adds.append((b, name, rs, line))
    is_var = lambda r: r == "variable_component(action)"
    is_mult = lambda r: re.fullmatch(r"multiplier\((get_fees\(state\)|fees)\)", r) is not None
    is_base = lambda r: re.fullmatch(r"base\((get_fees\(state\)|fees)\)", r) is not None
    good_mul = [m for m in muls if len(m[2]) == 2 and
                ((is_var(m[2][0]) and is_mult(m[2][1])) or (is_var(m[2][1]) and is_mult(m[2][0])))]
    rep.check(len(muls) == 1 and len(good_mul) == 1, "L4", "fee:variable*multiplier",
              f"fee() multiplies {[m[2] for m in muls]}; expected exactly variable_component(action) "
              f"x multiplier(stored fee components)", body.describe(),
              detail=str([m[2] for m in muls]))
    def is_product(r, b):
        if "mul(" in r and "variable_component(action)" in r:
            return True
        # closure parameter of a closure passed to and_then on the product
        if b is not body and re.fullmatch(r"\w+", r):
            for c in body.calls:
                if c.matches(r"Option::<T>::and_then$|Result::<T, E>::and_then$") and \
                        "mul(" in body.root(c.args[0]) and b.name in body.root(c.args[1]):
                    return True
        return False
    good_add = [a for a in adds if len(a[2]) == 2 and
                ((is_base(a[2][0]) and is_product(a[2][1], a[0])) or
                 (is_base(a[2][1]) and is_product(a[2][0], a[0])))]
    rep.check(len(adds) == 1 and len(good_add) == 1, "L4", "fee:base+product",
              f"fee() adds {[a[2] for a in adds]}; expected exactly base(stored fee components) + "
              f"(variable_component x multiplier)", body.describe(), detail=str([a[2] for a in adds]))
    for v, line in vals:
        norm = re.sub(r"<(Ready|Continue|Some)>\.0", "", v)
        rep.check("mul(" in norm and "variable_component(action)" in norm or
                  ("Mul" in norm and "variable_component(action)" in norm), "L4",
                  "fee:returned-amount-is-that-sum",
                  f"fee() returns `{norm[:140]}`, which does not derive from the fee formula",
                  f"{body.file}:{line}", detail=norm[:120])
    # pay_fees_and_execute hands its own tx_signer parameter to every pay_fee
    body = prog.main_body(PFE)
    pf = _calls(body, PAYFEE)
    for c in pf:
        rep.check(body.root(c.args[1]) == "tx_signer", "L4",
                  f"payer=tx_signer:{body.root(c.args[0])[12:40]}",
                  f"pay_fee is called for `{body.root(c.args[1])}` instead of the tx signer",
                  c.where())


def l5(prog, rep):
    body = prog.main_body(PFE)
    nvar = adt_variant_count(prog, CA + "checked_action::CheckedAction")
    rep.floor("L5", nvar or 0, 18, "CheckedAction variants")
    pf = _calls(body, PAYFEE)
    ex = [c for c in body.calls if c.matches(r"^astria_sequencer::checked_actions::.*::Checked\w+"
                                             r"(::<.*>)?::execute$")]
    rep.check(len(pf) == nvar, "L5", "one-pay_fee-per-variant",
              f"{len(pf)} pay_fee calls for {nvar} CheckedAction variants: some action executes "
              f"without paying (or pays twice)", body.describe())
    rep.floor("L5", len(ex), 17, "execute calls in pay_fees_and_execute")
    for e in ex:
        recv = body.root(e.args[0])
        guard = [p for p in pf if body.root(p.args[0]) == f"action({recv})"]
        key = f"pay<=execute:{recv}"
        if not guard:
            rep.fail("L5", key, f"no pay_fee for `{recv}` before its execute", e.where())
            continue
        oe = body.outcome_edges(guard[0])
        rep.check(oe["kind"] == "try" and body.must_pass_edges(set(oe["ok"]), e.bb), "L5", key,
                  f"`{recv}` can execute without its fee having been paid successfully",
                  e.where())
    # exhaustive matches
    for o, enum_rx, ename in (
            (PFE, r"checked_action::CheckedAction$", CA + "checked_action::CheckedAction"),
            (CA + "checked_action::CheckedAction::run_mutable_checks",
             r"checked_action::CheckedAction$", CA + "checked_action::CheckedAction"),
            (CA + "utils::total_fees", r"^astria_sequencer::checked_actions::action_ref::ActionRef",
             CA + "action_ref::ActionRef")):
        b = prog.main_body(o)
        sw = enum_switches(b, prog, enum_rx)
        n = adt_variant_count(prog, ename)
        if not sw:
            rep.fail("L5", f"exhaustive:{short_name(o)}", f"no match over {ename} found in {o}",
                     b.describe())
            continue
        for (bb, ty, vals, wildcard, line) in sw[:1]:
            rep.check(not wildcard and len(vals) == n, "L5", f"exhaustive:{short_name(o)}",
                      f"{o}: match over {short_name(ename)} covers {len(vals)} of {n} variants"
                      f"{' with a wildcard arm' if wildcard else ''}: a new action could skip "
                      f"fees/checks silently", f"{b.file}:{line}")

"""C14 Validator set given to CometBFT mirrors the application's and is never empty.

 V1 (K3 pairing) entry writes are paired with the count: remove_validator => count - 1,
    first-time put_validator => count + 1, update of an existing validator => no count change;
    the count operand is the stored count and "already exists" is the stored entry lookup;
    removal requires (exists && count > 1) in the guard.  Same pairing in the misbehaviour
    path and in the Aspen migration (count = size of the migrated set).
 V2 (K1) writers of validator entries / count / per-block updates are a frozen list.
 V3 (K2) end_block: the block's validator updates are read, then cleared, and what is returned
    to CometBFT is what was read; every executed ValidatorUpdate is appended to that set.
 V4 (K8) vote-extension verification reads the same validator store.
 V5 (information flow) a removal handed to CometBFT must be one it can apply, i.e. the key must
    have been in the set at the start of the block.  The stored entry that guards a removal is
    *current* block state (it also exists for a key added earlier in the same block), so the
    decision needs a second source: the pending per-block updates must be consulted for the key
    before a removal is recorded, or end_block must filter the batch against the committed set.
    Neither happens today (finding F10: add-then-remove of a new key in one block).
Not decided: the fold-over-history mirror and CometBFT-applicability of each batch (e.g.
add-then-remove of a new key inside one block) - history dependent.
"""
import re

from facts import short_name
from kinds import (rel, comparisons, k1_callers, on_all_success_paths, error_cut)

CRATES = ["astria_sequencer.lib"]
S = "astria_sequencer::"
AW = S + "authority::state_ext::StateWriteExt::"
AR = S + "authority::state_ext::StateReadExt::"
VU = S + "checked_actions::validator_update::CheckedValidatorUpdate::"
BEGIN = ("<astria_sequencer::authority::component::AuthorityComponent as "
         "astria_sequencer::component::Component>::begin_block")
ASPEN = S + "authority::component::AuthorityComponent::handle_aspen_upgrade"


def is_test_owner(o):
    return "::tests" in o or "test_utils" in o or "benchmark" in o


def run(prog, rep):
    rep.explanation = (
        "Pairing / who-may-write rules over the validator bookkeeping MIR: every write of a "
        "validator entry is paired on all paths with the matching +/-1 update of the stored "
        "count (operand provenance checked), guards for removal are on every success path, "
        "writer functions are a frozen list, end_block returns exactly the per-block update set "
        "it read before clearing it, and vote-extension verification uses the same store. The "
        "mirror relation over histories and per-batch applicability are not decided.")
    rep.assumptions += ["production cfg only"]
    v1(prog, rep)
    v2(prog, rep)
    v3(prog, rep)
    v4(prog, rep)
    v5(prog, rep)


def switch_on(body, root_rx):
    for bb in sorted(body.live_blocks()):
        t = body.term(bb)
        if t[0] == "switch" and re.search(root_rx, body.root(t[1])):
            te = [(bb, t[3])]
            fe = [(bb, tgt) for v, tgt in t[2] if v == 0]
            return bb, te, fe
    return None


def paired(body, a, others, e, bl, terminals):
    """Order-insensitive pairing: no path that runs `a` and ends in success avoids all of
    `others` (they may come before or after `a`; both run on the same delta)."""
    cut = set(bl) | {c.bb for c in others}
    if a.bb not in body.reachable(0, removed_edges=e, removed_blocks=cut):
        return True         # every way to `a` already passed one of the others
    if a.target is None:
        return False
    return not (terminals & body.reachable(a.target, removed_edges=e, removed_blocks=cut))


def v1(prog, rep):
    body = prog.main_body(VU + "execute")
    rem = [c for c in body.calls if c.is_(AW + "remove_validator")]
    putv = [c for c in body.calls if c.is_(AW + "put_validator")]
    cnt = [c for c in body.calls if c.is_(AW + "put_validator_count")]
    rep.floor("V1", len(rem), 1, "remove_validator in ValidatorUpdate::execute")
    rep.floor("V1", len(putv), 1, "put_validator in ValidatorUpdate::execute")
    rep.floor("V1", len(cnt), 2, "put_validator_count in ValidatorUpdate::execute")
    META = r"do_run_mutable_checks\(self,state\).*<Some>\.0\.current_validator_count"
    dec = [c for c in cnt if re.match(r"^(saturating|checked)_sub\(" + META + r",const\(1\)\)",
                                      body.root(c.args[1]))]
    inc = [c for c in cnt if re.match(r"^(saturating|checked)_add\(" + META + r",const\(1\)\)",
                                      body.root(c.args[1]))]
    other = [c for c in cnt if c not in dec and c not in inc]
    for c in other:
        rep.fail("V1", "count-operand", f"validator count is set to `{body.root(c.args[1])[:100]}`"
                 f", not stored count +/- 1", c.where())
    terminals = set(body.return_blocks())
    e, bl = error_cut(body)
    for r in rem:
        rep.check(body.root(r.args[1]) == "self.action.verification_key", "V1", "remove-key",
                  f"removes {body.root(r.args[1])}", r.where())
        good = bool(dec) and paired(body, r, dec, e, bl, terminals)
        rep.check(good, "V1", "remove=>count-1",
                  "a validator entry can be removed without the stored count being decremented",
                  r.where())
    for c in dec:
        rep.check(bool(rem) and paired(body, c, rem, e, bl, terminals), "V1", "count-1=>remove",
                  "the stored count is decremented without a validator entry being removed", c.where())
    # removal only on the power == 0 edge
    pw = rel(body, "Eq", r"^self\.action\.power$", r"^const\(0\)$")
    rep.check(bool(pw) and all(body.must_pass_edges(set(pw[0].true_edges), r.bb) for r in rem) and
              all(body.must_pass_edges(set(pw[0].false_edges), p.bb) for p in putv), "V1",
              "power==0<=>remove", "removal/put are not selected by `power == 0`", body.describe())
    sw = switch_on(body, r"<Some>\.0\.validator_already_exists$")
    if sw is None:
        rep.fail("V1", "exists-switch", "branch on metadata.validator_already_exists not found",
                 body.describe())
    else:
        bb, te, fe = sw
        for c in inc:
            rep.check(body.must_pass_edges(set(fe), c.bb), "V1", "count+1=>new-validator",
                      "the stored count is incremented for a validator that already exists", c.where())
        for p in putv:
            starts = [v for (u, v) in fe]
            # order-insensitive: from the "did not exist" edge no successful path runs the put
            # without the increment (before or after it)
            cutb = set(bl) | {c.bb for c in inc}
            good = bool(inc) and all(
                p.bb not in body.reachable(s, removed_edges=e, removed_blocks=cutb) or
                (p.target is not None and not (
                    terminals & body.reachable(p.target, removed_edges=e, removed_blocks=cutb)))
                for s in starts)
            rep.check(good, "V1", "new-validator=>count+1",
                      "a new validator entry can be written without the stored count being "
                      "incremented", p.where())
            rep.check(body.root(p.args[1]) == "self.action", "V1", "put-operand",
                      f"stores {body.root(p.args[1])}", p.where())
    # guard: metadata provenance and removal preconditions
    g = prog.main_body(VU + "do_run_mutable_checks")
    metas = list(g.aggregates("adt", r"validator_update::Metadata$"))
    rep.floor("V1", len(metas), 1, "Metadata construction")
    for i, j, p, rv, line in metas:
        f = dict(zip(rv[5], [g.root(o) for o in rv[4]]))
        rep.check(f.get("current_validator_count", "").startswith("get_validator_count(state)"), "V1",
                  "meta.count<-store", f"count comes from {f.get('current_validator_count', '')[:60]}",
                  f"{g.file}:{line}")
        rep.check(f.get("validator_already_exists", "").startswith(
            "is_some(get_validator(state,self.action.verification_key)"), "V1", "meta.exists<-store",
            f"exists comes from {f.get('validator_already_exists', '')[:80]}", f"{g.file}:{line}")
        # on the power==0 edge, reaching this block requires count > 1 and exists
        pw = rel(g, "Eq", r"^self\.action\.power$", r"^const\(0\)$")
        gt = rel(g, "Gt", r"^get_validator_count\(state\)", r"^const\(1\)$")
        ex = switch_on(g, r"^is_some\(get_validator\(state,self\.action\.verification_key\)")
        # choose the post-aspen power switch: the one that dominates the Metadata block partially
        ok = False
        for pc in pw:
            if not gt or ex is None:
                break
            # every path entry -> Metadata block passes: power!=0 edge, or (count>1 true and exists true)
            via = set(pc.false_edges) | set(gt[0].true_edges)
            via2 = set(pc.false_edges) | set(ex[1])
            if g.must_pass_edges(via, i) and g.must_pass_edges(via2, i) and g.reaches(pc.bb, i):
                ok = True
        rep.check(ok, "V1", "remove-guard:exists&&count>1",
                  "a removal can pass the checks although the validator does not exist or is the "
                  "last one (the set handed to CometBFT could become empty / unappliable)",
                  f"{g.file}:{line}")
    # misbehaviour path
    b = prog.main_body(BEGIN)
    rem = [c for c in b.calls if c.is_(AW + "remove_validator")]
    cnt = [c for c in b.calls if c.is_(AW + "put_validator_count")]
    getv = [c for c in b.calls if c.is_(AR + "get_validator")]
    rep.floor("V1", len(rem), 1, "remove_validator in begin_block")
    loop_heads = {c.bb for c in b.calls if c.matches(r"Iterator>?::next$") and c.macros
                  and c.macros[0] == "desugar:ForLoop"}
    e, bl = error_cut(b)
    for r in rem:
        key = b.root(r.args[1])
        good_cnt = [c for c in cnt if re.match(r"^(saturating|checked)_sub\(get_validator_count\(",
                                               b.root(c.args[1]))]
        term = set(b.return_blocks()) | loop_heads
        good = bool(good_cnt) and not (term & b.reachable(r.target, removed_edges=e,
                                                          removed_blocks=set(bl) | {c.bb for c in good_cnt}))
        rep.check(good, "V1", "begin_block:remove=>count-1",
                  "misbehaviour removal does not decrement the stored count", r.where())
        lk = [c for c in getv if b.root(c.args[1]) == key]
        ok = False
        if lk:
            oe = b.outcome_edges(lk[0])
            # Try first, then Option switch on payload: use the `is_none` bool
            isn = [c for c in b.calls if c.matches(r"Option::<T>::is_none$")
                   and "get_validator(" in b.root(c.args[0])]
            if isn:
                from kinds import bool_payload_edges
                be = bool_payload_edges(b, isn[0])
                ok = be is not None and b.must_pass_edges(set(be[1]), r.bb)
        rep.check(ok, "V1", "begin_block:remove<=exists",
                  "misbehaviour handling decrements the count for a validator that is not stored",
                  r.where())
    # aspen migration: count = len(set), every member stored
    b = prog.main_body(ASPEN)
    cnt = [c for c in b.calls if c.is_(AW + "put_validator_count")]
    putv = [c for c in b.calls if c.is_(AW + "put_validator")]
    good = len(cnt) == 1 and b.root(cnt[0].args[1]).startswith("len(pre_aspen_get_validator_set(state)") \
        and len(putv) == 1 and "pre_aspen_get_validator_set(state)" in b.root(putv[0].args[1]) \
        and "next(into_iter(" in b.root(putv[0].args[1])
    rep.check(good, "V1", "aspen:count=len(set)&all-stored",
              "Aspen migration does not store every member of the old set with count = its size",
              b.describe())


def v2(prog, rep):
    k1_callers(prog, rep, "V2", [AW + "put_validator"], [VU + "execute", ASPEN], floor=2,
               ignore_owner=is_test_owner)
    k1_callers(prog, rep, "V2", [AW + "remove_validator"], [VU + "execute", BEGIN], floor=2,
               ignore_owner=is_test_owner)
    k1_callers(prog, rep, "V2", [AW + "put_validator_count"], [VU + "execute", BEGIN, ASPEN],
               floor=4, ignore_owner=is_test_owner)
    k1_callers(prog, rep, "V2", [AW + "put_block_validator_updates"],
               [VU + "execute", re.compile(r"authority::component::.*::(end_block|init_chain)$")],
               floor=1, ignore_owner=is_test_owner)
    k1_callers(prog, rep, "V2", [AW + "clear_block_validator_updates"], [S + "app::App::end_block"],
               floor=1, ignore_owner=is_test_owner)


def v3(prog, rep):
    b = prog.main_body(S + "app::App::end_block")
    get = [c for c in b.calls if c.is_(AR + "get_block_validator_updates")]
    clr = [c for c in b.calls if c.is_(AW + "clear_block_validator_updates")]
    conv = [c for c in b.calls if c.matches(r"ValidatorSet::try_into_cometbft$")]
    good = len(get) == 1 and len(clr) == 1 and b.must_pass_block(get[0].bb, clr[0].bb)
    rep.check(good, "V3", "read-then-clear",
              "end_block clears the block's validator updates before reading them", b.describe())
    rep.check(bool(conv) and "get_block_validator_updates(" in b.root(conv[0].args[0]), "V3",
              "returned=read", "validator updates returned to CometBFT are not the set read from "
              "state", b.describe())
    rep.check(bool(clr) and on_all_success_paths(b, via_blocks=[clr[0].bb]), "V3", "always-cleared",
              "end_block can succeed without clearing the per-block updates (they would be "
              "reported again in the next block)", b.describe())
    # execute appends its own action to the set it read
    b = prog.main_body(VU + "execute")
    ins = [c for c in b.calls if c.matches(r"authority::ValidatorSet::insert$")]
    put = [c for c in b.calls if c.is_(AW + "put_block_validator_updates")]
    good = len(ins) == 1 and len(put) == 1 and \
        "get_block_validator_updates(state)" in b.root(ins[0].args[0]) and \
        b.root(ins[0].args[1]) in ("self.action", "clone(self.action)") and \
        "get_block_validator_updates(state)" in b.root(put[0].args[1]) and \
        on_all_success_paths(b, via_blocks=[put[0].bb]) and b.must_pass_block(ins[0].bb, put[0].bb)
    rep.check(good, "V3", "execute-appends-update",
              "ValidatorUpdate::execute can succeed without appending its update to the block's "
              "update set", b.describe())


def v4(prog, rep):
    b = prog.main_body(S + "app::vote_extension::verification_key")
    g = [c for c in b.calls if c.is_(AR + "get_validator")]
    rep.check(len(g) == 1 and b.root(g[0].args[1]) == "address", "V4", "ve-key<-validator-store",
              "vote-extension verification keys are not read from the application's validator "
              "store", b.describe())


def v5(prog, rep):
    body = prog.main_body(VU + "execute")
    QUERY = {"get", "contains", "contains_key", "remove", "entry", "get_mut", "iter", "values",
             "keys", "is_empty", "len", "retain", "take", "get_key_value"}
    consults = []
    for o in (VU + "execute", VU + "do_run_mutable_checks", VU + "run_mutable_checks"):
        if o not in prog.by_owner:
            continue
        for b in prog.bodies_of(o):
            for c in b.calls:
                if c.expn or not c.args:
                    continue
                r0 = b.root(c.args[0])
                if "get_block_validator_updates(" in r0 and short_name(c.callee) in QUERY:
                    consults.append(f"{short_name(o)}:{short_name(c.callee)}")
    # or: end_block filters what it read before handing it to CometBFT
    eb = prog.main_body(S + "app::App::end_block")
    filters = []
    for c in eb.calls:
        if c.expn or not c.args:
            continue
        r0 = eb.root(c.args[0])
        if "get_block_validator_updates(self.state)" in r0 and \
                short_name(c.callee) in ("retain", "filter", "remove", "filter_map", "extract_if"):
            filters.append(short_name(c.callee))
    ins = [c for c in body.calls if short_name(c.callee) == "insert" and c.args
           and "get_block_validator_updates(" in body.root(c.args[0])]
    rep.floor("V5", len(ins), 1, "insertion into the block's validator updates in execute")
    rep.check(bool(consults) or bool(filters), "V5", "removal-applicability:pending-updates-consulted",
              "a removal (power 0) is recorded for CometBFT on the evidence of the *current* stored "
              "entry alone; neither ValidatorUpdate::execute/checks consult the block's pending "
              "updates for the key nor does end_block filter the batch against the committed set: "
              "a validator added and removed inside one block yields a removal of a key CometBFT "
              "never had, which CometBFT cannot apply", body.describe(),
              detail=f"consults={consults} filters={filters}")

"""Fact loader and program model for the astria static rule engine.

Facts are produced by /verif/driver (one JSON-lines file per crate target): `mir_built` bodies,
ADT definitions, impl tables.  This module gives them structure: per-body CFG (unwind edges are
not recorded by the driver, cleanup blocks are dropped), reachability, dominators, def/use
chains, value-flow helpers (`flow_to_switch`) and operand-root resolution (K5), plus a
workspace call graph over *owner items* (an async fn, its coroutine body and its closures are
one node).
"""
import json
import os
import pickle
import re
import sys
from collections import defaultdict, deque

FACTS_DIR = os.environ.get("ASTRIA_FACTS_DIR", "/verif/.cache/facts")

ADAPTERS = (
    "core::future::into_future::IntoFuture::into_future",
    "core::future::future::Future::poll",
    "core::pin::Pin::<Ptr>::new_unchecked",
    "core::pin::Pin::<Ptr>::new",
    "eyre::WrapErr::wrap_err",
    "eyre::WrapErr::wrap_err_with",
    "eyre::WrapErr::context",
    "eyre::WrapErr::with_context",
    "core::result::Result::<T, E>::map_err",
    "core::result::Result::<T, E>::map",
    "core::result::Result::<T, E>::ok_or",
    "core::option::Option::<T>::ok_or",
    "core::option::Option::<T>::ok_or_else",
    "eyre::OptionExt::ok_or_eyre",
    "core::convert::Into::into",
    "core::convert::From::from",
    "astria_eyre::anyhow_to_eyre",
    "astria_eyre::eyre_to_anyhow",
    "tracing::instrument::Instrument::instrument",
    "tracing::instrument::Instrument::in_current_span",
    "core::result::Result::<T, E>::and_then",
    "core::result::Result::<T, E>::inspect_err",
    "core::result::Result::<T, E>::inspect",
    "core::result::Result::<T, E>::ok",
    "core::result::Result::<T, E>::as_ref",
    "core::option::Option::<T>::as_ref",
    "core::option::Option::<T>::and_then",
    "core::option::Option::<T>::map",
    "core::option::Option::<T>::copied",
    "core::option::Option::<T>::cloned",
    "core::option::Option::<&T>::copied",
    "core::option::Option::<&T>::cloned",
    "core::option::Option::<T>::inspect",
    "core::option::Option::<T>::filter",
    "core::option::Option::<T>::transpose",
    "core::result::Result::<T, E>::or_else",
    "core::bool::<impl bool>::then_some",
    "futures_util::future::try_future::TryFutureExt::map_err",
    "futures_util::future::future::FutureExt::map",
)

TRY_BRANCH = "core::ops::try_trait::Try::branch"
FROM_RESIDUAL = "core::ops::try_trait::FromResidual::from_residual"


def place_local(p):
    i = p.find("|")
    return int(p if i < 0 else p[:i])


def place_proj(p):
    i = p.find("|")
    return [] if i < 0 else p[i + 1:].split("|")


def op_place(op):
    return op[1] if op[0] in ("c", "m") else None


def op_local(op):
    return place_local(op[1]) if op[0] in ("c", "m") else None


class Call:
    __slots__ = ("body", "bb", "fn", "name", "resolved", "self_ty", "gargs", "args", "dest",
                 "target", "line", "macros", "expn", "key", "rkey")

    def __init__(self, body, bb, t):
        self.body = body
        self.bb = bb
        f = t[1]
        self.fn = f
        self.name = f.get("n")
        self.key = f.get("k")
        self.resolved = f.get("r")
        self.rkey = f.get("rk")
        self.self_ty = f.get("s")
        self.gargs = f.get("g")
        self.args = t[2]
        self.dest = t[3]
        self.target = t[4]
        self.line = t[5]
        self.macros = t[6]
        self.expn = t[7]

    @property
    def callee(self):
        """Most precise callee name: the resolved impl item if rustc could resolve it."""
        return self.resolved or self.name or "<indirect>"

    def names(self):
        return [n for n in (self.name, self.resolved) if n]

    def is_(self, *names):
        return any(n in names for n in self.names())

    def matches(self, rx):
        return any(re.search(rx, n) for n in self.names())

    def where(self):
        return f"{self.body.file}:{self.line}"

    def __repr__(self):
        return f"<call {self.callee} @{self.body.name} bb{self.bb} L{self.line}>"


def _load_frozen_params():
    p = os.path.join(os.path.dirname(os.path.abspath(__file__)), "param_names.json")
    try:
        with open(p) as f:
            return json.load(f)
    except (OSError, ValueError):
        return {}


FROZEN_PARAMS = _load_frozen_params()


class Body:
    def __init__(self, crate, o):
        self.crate = crate
        self.name = o["name"]
        self.key = o["key"]
        self.owner = o["owner"]
        self.okey = o["okey"]
        self.parent = o["parent"]
        self.kind = o["kind"]
        self.file = o["file"]
        self.line = o["line"]
        self.vis = o["vis"]
        self.expn = o["expn"]
        self.argc = o["argc"]
        self.locals = o["locals"]
        self.dbg = o["dbg"]
        fz = FROZEN_PARAMS.get(self.key)
        if fz and fz["argc"] == self.argc:
            # parameters are identified by position and shown under their frozen names (a
            # parameter rename is not a change of any operand)
            names = fz["names"]
            # parameters and captured variables are matched by position, but only for a *pure
            # rename*: the live name at that position is unknown to the frozen table and the
            # frozen name no longer occurs.  (The capture order of closures / async blocks
            # follows first use, so an edit can permute positions: equal names are never
            # relabelled.)
            live_p = {n for n, p in self.dbg if int(p.split("|")[0]) <= self.argc}
            frozen_p = set(names.values())
            self.dbg = [[names[p], p] if (int(p.split("|")[0]) <= self.argc and p in names
                                          and n != names[p] and n not in frozen_p
                                          and names[p] not in live_p)
                        else [n, p] for n, p in self.dbg]
            # a *pure rename* of a local variable: same number of named locals in the same
            # declaration order, the i-th live name is unknown to the frozen list and the i-th
            # frozen name no longer occurs -> it is the same variable under a new name
            fl = fz.get("locals") or []
            idx = [k for k, (n, p) in enumerate(self.dbg)
                   if int(p.split("|")[0]) > self.argc and not n.startswith("__")]
            if len(idx) == len(fl):
                live_names = {self.dbg[k][0] for k in idx}
                frozen_names = set(fl)
                for k, fn_ in zip(idx, fl):
                    ln = self.dbg[k][0]
                    if ln != fn_ and ln not in frozen_names and fn_ not in live_names:
                        self.dbg[k] = [fn_, self.dbg[k][1]]
        self.blocks = o["blocks"]
        self._succ = None
        self._pred = None
        self._calls = None
        self._defs = None
        self._dom = None

    # ---------------------------------------------------------------- CFG
    def term(self, b):
        return self.blocks[b]["t"]

    def stmts(self, b):
        return self.blocks[b]["s"]

    def is_cleanup(self, b):
        return self.blocks[b]["c"]

    @property
    def succ(self):
        if self._succ is None:
            s = []
            for blk in self.blocks:
                t = blk["t"]
                k = t[0]
                if blk["c"]:
                    s.append([])
                elif k == "goto":
                    s.append([t[1]])
                elif k == "switch":
                    out = [x[1] for x in t[2]] + [t[3]]
                    s.append(list(dict.fromkeys(out)))
                elif k == "drop":
                    s.append([t[2]])
                elif k == "call":
                    s.append([t[4]] if t[4] is not None else [])
                elif k == "assert":
                    s.append([t[4]])
                elif k == "yield":
                    s.append([t[2]])
                elif k == "fe":
                    s.append([t[1]])
                elif k == "fu":
                    s.append([t[1]])
                else:
                    s.append([])
            self._succ = s
        return self._succ

    @property
    def pred(self):
        if self._pred is None:
            p = [[] for _ in self.blocks]
            for a, ss in enumerate(self.succ):
                for b in ss:
                    p[b].append(a)
            self._pred = p
        return self._pred

    def reachable(self, start=0, removed_edges=(), removed_blocks=()):
        """Blocks reachable from `start` (inclusive) after deleting edges/blocks."""
        removed_edges = set(removed_edges)
        removed_blocks = set(removed_blocks)
        if start in removed_blocks:
            return set()
        seen = {start}
        dq = deque([start])
        succ = self.succ
        while dq:
            a = dq.popleft()
            for b in succ[a]:
                if b in seen or b in removed_blocks or (a, b) in removed_edges:
                    continue
                seen.add(b)
                dq.append(b)
        return seen

    def live_blocks(self):
        return self.reachable(0)

    def reaches(self, a, b, removed_edges=(), removed_blocks=()):
        return b in self.reachable(a, removed_edges, removed_blocks)

    def must_pass_edges(self, edges, target_bb):
        """True iff every path entry -> target_bb uses one of `edges` (a set of (u, v))."""
        return target_bb not in self.reachable(0, removed_edges=edges)

    def must_pass_block(self, via_bb, target_bb):
        if via_bb == target_bb:
            return True
        return target_bb not in self.reachable(0, removed_blocks=[via_bb])

    @property
    def dom(self):
        """Immediate-dominator-free dominator sets (small bodies; simple iterative)."""
        if self._dom is None:
            live = sorted(self.live_blocks())
            allb = set(live)
            dom = {b: set(allb) for b in live}
            dom[0] = {0}
            changed = True
            pred = self.pred
            while changed:
                changed = False
                for b in live:
                    if b == 0:
                        continue
                    ps = [dom[p] for p in pred[b] if p in dom]
                    new = set.intersection(*ps) if ps else set()
                    new = new | {b}
                    if new != dom[b]:
                        dom[b] = new
                        changed = True
            self._dom = dom
        return self._dom

    def dominates(self, a, b):
        return b in self.dom and a in self.dom[b]

    def return_blocks(self):
        live = self.live_blocks()
        return [b for b in live if self.term(b)[0] == "ret"]

    # ---------------------------------------------------------------- calls / defs
    @property
    def calls(self):
        if self._calls is None:
            live = self.live_blocks()
            self._calls = [Call(self, i, blk["t"]) for i, blk in enumerate(self.blocks)
                           if blk["t"][0] == "call" and i in live]
        return self._calls

    def calls_to(self, *names, rx=None):
        out = []
        for c in self.calls:
            if names and c.is_(*names):
                out.append(c)
            elif rx and c.matches(rx):
                out.append(c)
        return out

    def call_at(self, bb):
        t = self.blocks[bb]["t"]
        return Call(self, bb, t) if t[0] == "call" else None

    @property
    def defs(self):
        """local -> list of ('stmt', bb, idx, place, rvalue) | ('call', bb, Call) | ('yield', bb)."""
        if self._defs is None:
            d = defaultdict(list)
            live = self.live_blocks()
            for i, blk in enumerate(self.blocks):
                if i not in live:
                    continue
                for j, s in enumerate(blk["s"]):
                    if s[0] == "a":
                        d[place_local(s[1])].append(("stmt", i, j, s[1], s[2]))
                t = blk["t"]
                if t[0] == "call":
                    d[place_local(t[3])].append(("call", i, Call(self, i, t)))
                elif t[0] == "yield":
                    d[place_local(t[3])].append(("yield", i))
            self._defs = d
        return self._defs

    def dbg_name(self, place):
        m = self.__dict__.get("_dbg_map")
        if m is None:
            m = {}
            for n, p in self.dbg:
                m.setdefault(p, n)
            self._dbg_map = m
        return m.get(place)

    def assigns(self):
        live = self.live_blocks()
        for i, blk in enumerate(self.blocks):
            if i not in live:
                continue
            for j, s in enumerate(blk["s"]):
                if s[0] == "a":
                    yield i, j, s[1], s[2], s[3]

    def aggregates(self, kind=None, name_rx=None):
        for i, j, p, rv, line in self.assigns():
            if rv[0] == "agg" and (kind is None or rv[1] == kind) and \
                    (name_rx is None or re.search(name_rx, rv[2])):
                yield i, j, p, rv, line

    # ---------------------------------------------------------------- value flow
    def flow(self, seeds, start_bb, stop_at=None, through_calls=None, max_blocks=4000):
        """Forward taint from locals `seeds` starting at block `start_bb`.

        Taint propagates through assignments whose rvalue mentions a tainted local and through
        adapter calls (ADAPTERS + through_calls).  Yields events:
          ('switch', bb, term)  -- a SwitchInt whose discriminant is tainted
          ('call', bb, Call)    -- a call taking a tainted argument
        in BFS order from start_bb.  Flow-insensitive inside the explored region.
        """
        through = set(ADAPTERS) | set(through_calls or ())
        taint = set(seeds)
        events = []
        seen = set()
        dq = deque([start_bb])
        # two passes so that taint introduced late still reaches earlier-visited blocks in loops
        for _ in range(2):
            seen.clear()
            dq = deque([start_bb])
            events = []
            while dq and len(seen) < max_blocks:
                b = dq.popleft()
                if b in seen:
                    continue
                seen.add(b)
                for s in self.stmts(b):
                    if s[0] != "a":
                        continue
                    if any(l in taint for l in rvalue_locals(s[2])):
                        taint.add(place_local(s[1]))
                t = self.term(b)
                k = t[0]
                if k == "switch":
                    l = op_local(t[1])
                    if l in taint:
                        events.append(("switch", b, t))
                elif k == "call":
                    c = Call(self, b, t)
                    if any(op_local(a) in taint for a in c.args if op_local(a) is not None):
                        events.append(("call", b, c))
                        if c.is_(*through) or c.is_(TRY_BRANCH):
                            taint.add(place_local(c.dest))
                if stop_at and b in stop_at:
                    continue
                for n in self.succ[b]:
                    if n not in seen:
                        dq.append(n)
        return events, taint

    def outcome_edges(self, call):
        """Classify the control-flow outcome of a call whose result is a Result/Option/bool.

        Returns dict with keys among 'ok','err' -> list of (switch_bb, target_bb) edges, and
        'kind' in {'try','match_result','match_option','bool','none'}.
        """
        if call.target is None:
            return {"kind": "none", "ok": [], "err": []}
        events, taint = self.flow([place_local(call.dest)], call.target)
        saw_try = None
        for ev in events:
            if ev[0] == "call" and ev[2].is_(TRY_BRANCH):
                saw_try = ev[2]
                break
        if saw_try is not None:
            # the switch on the ControlFlow discriminant after Try::branch
            d = place_local(saw_try.dest)
            for b in self._forward_blocks(saw_try.target):
                t = self.term(b)
                if t[0] == "switch":
                    src = self._disc_source(b, t)
                    if src == d:
                        ok = [(b, tgt) for v, tgt in t[2] if v == 0]
                        err = [(b, tgt) for v, tgt in t[2] if v == 1]
                        return {"kind": "try", "ok": ok, "err": err, "switch": b}
                    break
        # otherwise: first switch on the (tainted) value that is not the await Poll switch
        for ev in events:
            if ev[0] != "switch":
                continue
            b, t = ev[1], ev[2]
            src = self._disc_source(b, t)
            ty = self.locals[src] if src is not None else self.locals[op_local(t[1])]
            if ty.startswith("core::task::poll::Poll<"):
                continue
            if ty == "bool":
                false_t = [(b, tgt) for v, tgt in t[2] if v == 0]
                return {"kind": "bool", "ok": [(b, t[3])], "err": false_t, "switch": b}
            if ty.startswith("core::result::Result<") or ty.startswith("&core::result::Result<"):
                return {"kind": "match_result", "ok": [(b, tgt) for v, tgt in t[2] if v == 0]
                        or [(b, t[3])],
                        "err": [(b, tgt) for v, tgt in t[2] if v == 1] or [(b, t[3])],
                        "switch": b}
            if ty.startswith("core::option::Option<") or ty.startswith("&core::option::Option<"):
                some = [(b, tgt) for v, tgt in t[2] if v == 1] or [(b, t[3])]
                none = [(b, tgt) for v, tgt in t[2] if v == 0] or [(b, t[3])]
                return {"kind": "match_option", "ok": some, "err": none, "switch": b}
        return {"kind": "none", "ok": [], "err": []}

    def _forward_blocks(self, start, limit=12):
        b = start
        for _ in range(limit):
            yield b
            s = self.succ[b]
            if len(s) != 1:
                return
            b = s[0]

    def _disc_source(self, bb, t):
        """If the switch operand is `discriminant(x)` computed in this block, return x's local."""
        l = op_local(t[1])
        if l is None:
            return None
        for s in reversed(self.stmts(bb)):
            if s[0] == "a" and place_local(s[1]) == l and s[2][0] == "disc":
                return place_local(s[2][1])
        return None

    # ---------------------------------------------------------------- K5 roots
    def root(self, op, depth=0, accessors=None):
        """Resolve an operand to a symbolic root expression string."""
        if op[0] == "k":
            return f"const({op[1]})"
        if op[0] == "f":
            return f"fn({op[1]})"
        return self.place_root(op[1], depth, accessors)

    def place_root(self, place, depth=0, accessors=None):
        if accessors is None:
            cache = self.__dict__.setdefault("_root_cache", {})
            hit = cache.get(place)
            if hit is not None:
                return hit
            r = self._place_root(place, depth, accessors)
            if "?deep" not in r:
                cache[place] = r
            return r
        return self._place_root(place, depth, accessors)

    def _place_root(self, place, depth=0, accessors=None):
        if depth > 40:
            return "?deep"
        local = place_local(place)
        proj = place_proj(place)
        # named by debuginfo (exact place or a prefix of it)?
        parts = [str(local)] + proj
        for cut in range(len(parts), 0, -1):
            pre = "|".join(parts[:cut])
            n = self.dbg_name(pre)
            if n is not None and not n.startswith("__") and (cut > 1 or local <= self.argc):
                rest = [x for x in parts[cut:] if x != "*"]
                return n + "".join(fmt_proj(x) for x in rest)
        ds = self.defs.get(local, [])
        rest = "".join(fmt_proj(x) for x in proj if x != "*")
        if local != 0 and local <= self.argc and not ds:
            n = self.dbg_name(str(local)) or f"arg{local}"
            return n + rest
        if len(ds) == 1 and MARK_MUT and local in self.mutated_locals() and not (
                # a by-value parameter moved into a local of the (coroutine) body is still "the
                # parameter": handles such as `mut state: S` are mutable by design
                ds[0][0] == "stmt" and ds[0][4][0] == "use" and op_local(ds[0][4][1]) is not None
                and 0 < op_local(ds[0][4][1]) <= self.argc):
            # the value is edited in place after its definition (`&mut local..` handed to a call
            # or an assignment to one of its parts): it is no longer "the value of its
            # definition" - make that visible in the root so that equalities fail closed
            rest = "~mut" + rest
        if len(ds) == 1:
            d = ds[0]
            if d[0] == "stmt":
                rv = d[4]
                if rv[0] == "use":
                    return self.root(rv[1], depth + 1, accessors) + rest
                if rv[0] in ("ref", "ptr"):
                    return self.place_root(rv[2] if rv[0] == "ref" else rv[1], depth + 1,
                                           accessors) + rest
                if rv[0] == "cast":
                    return self.root(rv[2], depth + 1, accessors) + rest
                if rv[0] == "bin":
                    return f"({self.root(rv[2], depth + 1, accessors)} {rv[1]} " \
                           f"{self.root(rv[3], depth + 1, accessors)})" + rest
                if rv[0] == "un":
                    return f"{rv[1]}({self.root(rv[2], depth + 1, accessors)})" + rest
                if rv[0] == "agg":
                    inner = ",".join(self.root(o, depth + 1, accessors) for o in rv[4])
                    variant = f"::{rv[3]}" if rv[3] and not rv[2].endswith("::" + rv[3]) else ""
                    return f"{rv[1]}:{rv[2]}{variant}{{{inner}}}" + rest
                if rv[0] == "disc":
                    return f"disc({self.place_root(rv[1], depth + 1, accessors)})" + rest
            elif d[0] == "call":
                c = d[2]
                short = short_name(c.callee)
                if accessors is None or c.is_(*accessors) or short in PURE_ACCESSORS \
                        or c.is_(*ADAPTERS) or c.is_(TRY_BRANCH):
                    args = ",".join(self.root(a, depth + 1, accessors) for a in c.args)
                    if c.is_(*ADAPTERS) or c.is_(TRY_BRANCH) or short in TRANSPARENT:
                        return (self.root(c.args[0], depth + 1, accessors) if c.args else "?") + rest
                    return f"{short}({args})" + rest
                return f"call#{c.bb}:{short}" + rest
            elif d[0] == "yield":
                return "resume" + rest
        n = self.dbg_name(str(local))
        if n is not None:
            return n + rest
        return f"_{local}" + rest

    def named_def_roots(self, name):
        """Roots of every definition of the user variable `name` (for variables assigned in
        several match arms, where `root` stops at the variable name)."""
        out = []
        for n, p in self.dbg:
            if n != name or "|" in p:
                continue
            for d in self.defs.get(int(p), []):
                if d[0] == "stmt":
                    rv = d[4]
                    if rv[0] == "use":
                        out.append(self.root(rv[1]))
                    elif rv[0] == "ref":
                        out.append(self.place_root(rv[2]))
                    else:
                        out.append(rv[0])
                elif d[0] == "call":
                    c = d[2]
                    out.append(f"{short_name(c.callee)}(" + ",".join(self.root(a) for a in c.args) + ")")
        return out

    def mutated_locals(self):
        """Locals whose value can be edited in place after their definition: a part of them is
        assigned, or a `&mut` borrow of them (or of a part) reaches a call that is not mere
        plumbing (advancing an iterator, polling a future, `?` conversion)."""
        m = self.__dict__.get("_mutated")
        if m is None:
            m = set()
            uses = defaultdict(list)        # local -> consumers (calls / reborrow targets)
            for c in self.calls:
                for a in c.args:
                    l = op_local(a)
                    if l is not None:
                        uses[l].append(c)
            reborrow = defaultdict(list)
            for i, j, p, rv, line in self.assigns():
                if rv[0] in ("ref", "ptr") and not place_proj(p):
                    src = rv[2] if rv[0] == "ref" else rv[1]
                    reborrow[place_local(src)].append(place_local(p))
                elif rv[0] in ("use", "cast") and not place_proj(p):
                    l = op_local(rv[1] if rv[0] == "use" else rv[2])
                    if l is not None:
                        reborrow[l].append(place_local(p))

            def benign(r, seen):
                if r in seen:
                    return True
                seen.add(r)
                for c in uses.get(r, []):
                    if not (c.is_(*ADAPTERS) or c.is_(TRY_BRANCH) or
                            re.search(r"(Iterator>?::next|Pin::<.*>::new_unchecked|Future>?::poll|"
                                      r"::get_context|IntoFuture>?::into_future|DerefMut>?::deref_mut|"
                                      r"pin::Pin<.*>::as_mut)$", c.callee or "")):
                        return False
                return all(benign(x, seen) for x in reborrow.get(r, []))
            for i, j, p, rv, line in self.assigns():
                pj = place_proj(p)
                if pj and pj[0] != "*":
                    m.add(place_local(p))
                if rv[0] == "ref" and rv[1] == "mut":
                    pj = place_proj(rv[2])
                    if (not pj or pj[0] != "*") and not benign(place_local(p), set()):
                        m.add(place_local(rv[2]))
            self._mutated = m
        return m

    def mut_uses(self, local):
        """Places where the value held in `local` can be modified in place: assignments to a
        projection of it and `&mut` borrows of it or of a part of it (the borrow is then handed
        to a call such as `Vec::retain`).  The (re)definitions of the whole local are not
        included (see `defs`).  Returns [(bb, line, what)]."""
        out = []
        for i, j, p, rv, line in self.assigns():
            if place_local(p) == local and place_proj(p):
                out.append((i, line, f"assign {self.place_root(p)}"))
            if rv[0] == "ref" and rv[1] == "mut" and place_local(rv[2]) == local:
                out.append((i, line, f"&mut {self.place_root(rv[2])}"))
        return out

    def move_chain(self, op):
        """Locals a moved/copied operand passed through (`_5 = move _4; _4 = move _3`), newest
        first, following single definitions that are plain uses."""
        out = []
        l = op_local(op)
        seen = set()
        while l is not None and l not in seen:
            seen.add(l)
            out.append(l)
            ds = self.defs.get(l, [])
            if len(ds) == 1 and ds[0][0] == "stmt" and ds[0][4][0] == "use" and \
                    not place_proj(ds[0][3]) and ds[0][4][1][0] in ("m", "c") and \
                    "|" not in ds[0][4][1][1]:
                l = op_local(ds[0][4][1])
            else:
                break
        return out

    def tuple_field_def_roots(self, root):
        """For a root that stopped at a multiply-defined tuple temporary (`_773.1`: a
        `let (a, b) = if .. {(x, y)} else {(x', y')}` join), the roots of that field in every
        aggregate definition of the tuple.  None if `root` does not have that shape."""
        m = re.fullmatch(r"_(\d+)\.(\d+)", root)
        if not m:
            return None
        out = []
        for d in self.defs.get(int(m.group(1)), []):
            if d[0] == "stmt" and d[4][0] == "agg" and d[4][1] == "tuple" and \
                    int(m.group(2)) < len(d[4][4]):
                out.append(self.root(d[4][4][int(m.group(2))]))
            else:
                return None
        return out or None

    def describe(self):
        return f"{self.name} ({self.file}:{self.line})"


MARK_MUT = os.environ.get("VERIF_MARK_MUT", "1") == "1"
TRANSPARENT = {"deref", "as_ref", "borrow", "clone", "as_mut", "deref_mut", "into", "from",
               "to_owned", "as_slice", "unbox", "into_inner", "borrow_mut"}
PURE_ACCESSORS = set()


def fmt_proj(x):
    if x.startswith("."):
        return x
    if x.startswith("@"):
        return f"<{x[1:]}>"
    return x


def short_name(n):
    n = re.sub(r"<[^<>]*>", "", n)
    n = re.sub(r"<[^<>]*>", "", n)
    return n.rsplit("::", 1)[-1]


def rvalue_locals(rv):
    k = rv[0]
    out = []
    if k in ("use", "rep"):
        l = op_local(rv[1])
        if l is not None:
            out.append(l)
    elif k == "ref":
        out.append(place_local(rv[2]))
    elif k in ("ptr", "disc"):
        out.append(place_local(rv[1]))
    elif k == "cast":
        l = op_local(rv[2])
        if l is not None:
            out.append(l)
    elif k == "bin":
        for o in (rv[2], rv[3]):
            l = op_local(o)
            if l is not None:
                out.append(l)
    elif k == "un":
        l = op_local(rv[2])
        if l is not None:
            out.append(l)
    elif k == "agg":
        for o in rv[4]:
            l = op_local(o)
            if l is not None:
                out.append(l)
    return out


class Program:
    """All loaded crates."""

    def __init__(self, crates, facts_dir=None):
        self.facts_dir = facts_dir or FACTS_DIR
        self.bodies = []
        self.by_name = defaultdict(list)
        self.by_key = {}
        self.by_owner = defaultdict(list)
        self.adts = {}
        self.impls = []
        self.trait_impls = defaultdict(list)   # trait method name -> [impl method names]
        self.crates = []
        self.files = []
        for c in crates:
            self._load(c)
        self._callgraph = None

    def _load(self, target):
        path = os.path.join(self.facts_dir, target + ".jsonl")
        if not os.path.exists(path):
            raise SystemExit(f"FATAL: fact file missing: {path}")
        st = os.stat(path)
        cache = path + ".pickle"
        data = None
        if os.path.exists(cache):
            try:
                with open(cache, "rb") as f:
                    stamp, data = pickle.load(f)
                if stamp != (st.st_mtime_ns, st.st_size):
                    data = None
            except Exception:
                data = None
        if data is None:
            data = []
            with open(path) as f:
                for line in f:
                    data.append(json.loads(line))
            try:
                with open(cache + ".tmp%d" % os.getpid(), "wb") as f:
                    pickle.dump(((st.st_mtime_ns, st.st_size), data), f, protocol=4)
                os.replace(cache + ".tmp%d" % os.getpid(), cache)
            except Exception:
                pass
        self.crates.append(target)
        self.files.append(path)
        crate = target.split(".")[0]
        for o in data:
            t = o["t"]
            if t == "body":
                b = Body(crate, o)
                self.bodies.append(b)
                self.by_name[b.name].append(b)
                self.by_key[b.key] = b
                self.by_owner[b.owner].append(b)
            elif t == "adt":
                self.adts[o["name"]] = o
            elif t == "impl":
                self.impls.append(o)
                for name, key, tname in o["items"]:
                    if tname:
                        self.trait_impls[tname].append(name)

    # ------------------------------------------------------------ lookup
    def bodies_of(self, owner):
        """All bodies (fn + closures + coroutine) whose owner item has this pretty name."""
        return self.by_owner.get(owner, [])

    def owners(self, rx):
        r = re.compile(rx)
        return sorted(o for o in self.by_owner if r.search(o))

    def main_body(self, owner, require=True):
        """The body of `owner` that contains the user's code: the deepest closure chain that
        the async/instrument desugaring produces, chosen as the body with the most call sites
        that are not from tracing expansion."""
        bs = self.by_owner.get(owner, [])
        if not bs:
            if require:
                raise AnchorMissing(owner)
            return None
        def weight(b):
            user = sum(1 for c in b.calls if not c.expn)
            sugar = sum(1 for c in b.calls if c.expn and c.macros and c.macros[0] in (
                "desugar:Await", "desugar:QuestionMark", "desugar:ForLoop", "ensure", "bail"))
            return (user, sugar)
        # the user's code of an `async fn` (optionally under #[instrument]/#[async_trait]) lives on
        # the `{closure#0}::{closure#0}..` spine; other closures are user closures or tracing
        spine = [b for b in bs if re.fullmatch(r"(::\{closure#0\})*", b.name[len(owner):])]
        return max(spine or bs, key=lambda b: (weight(b), len(b.blocks)))

    def calls_in(self, owner):
        for b in self.by_owner.get(owner, []):
            for c in b.calls:
                yield c

    def all_calls(self):
        for b in self.bodies:
            for c in b.calls:
                yield c

    def callers_of(self, *names, rx=None):
        """Map owner -> [Call] over every call site of the named callee(s)."""
        out = defaultdict(list)
        r = re.compile(rx) if rx else None
        for c in self.all_calls():
            if (names and c.is_(*names)) or (r and any(r.search(n) for n in c.names())):
                out[c.body.owner].append(c)
        return out

    # ------------------------------------------------------------ call graph
    @property
    def callgraph(self):
        """owner -> set(owner) over workspace items.  Trait-method calls that rustc could not
        resolve fan out to every workspace impl of that trait method; fn items passed as
        values (`map(Self::f)`) count as calls."""
        if self._callgraph is None:
            g = defaultdict(set)
            # workspace Drop impls: a `drop` terminator of a place whose type mentions the
            # impl's self type is a call of that impl (drop glue is not a Call terminator)
            drops = []
            for im in self.impls:
                if im["trait"] and im["trait"].endswith("core::ops::drop::Drop"):
                    base = re.sub(r"<.*$", "", im["self"])
                    for name, key, tname in im["items"]:
                        drops.append((base, name))
            for b in self.bodies:
                tgt = g[b.owner]
                if drops:
                    for i in b.live_blocks():
                        t = b.blocks[i]["t"]
                        if t[0] == "drop":
                            ty = b.locals[place_local(t[1])]
                            for base, name in drops:
                                if base in ty and name != b.owner:
                                    tgt.add(name)
                for c in b.calls:
                    for n in self.resolve_targets(c):
                        tgt.add(n)
                    for a in c.args:
                        if a[0] == "f" and a[1] in self.by_owner:
                            tgt.add(a[1])
                for _, _, _, rv, _ in b.assigns():
                    for o in rvalue_ops(rv):
                        if o[0] == "f":
                            if o[1] in self.by_owner:
                                tgt.add(o[1])
                            if not o[1].startswith(("core::", "std::", "alloc::")):
                                for n in self.trait_impls.get(o[1], ()):
                                    if n in self.by_owner:
                                        tgt.add(n)
            self._callgraph = g
        return self._callgraph

    def _conv_index(self):
        """(trait short name, self type) -> workspace impl methods, for the std trampolines
        `str::parse::<T>` -> `<T as FromStr>::from_str`, `T::try_into() -> U` ->
        `<U as TryFrom<..>>::try_from`, `T::into() -> U` -> `<U as From<..>>::from`, and the
        formatting machinery (`Argument::new_display::<T>` / `T::to_string()` -> `<T as
        Display>::fmt`) - rustc resolves these calls to generic code inside core/alloc, which is
        not walked."""
        idx = self.__dict__.get("_convidx")
        if idx is None:
            idx = defaultdict(list)
            rx = re.compile(r"^<(.+) as core::(?:str::traits::(FromStr)|convert::(TryFrom|From)<.*>)>::"
                            r"(from_str|try_from|from)$")
            rf = re.compile(r"^<(.+) as core::fmt::(Display|Debug|LowerHex|UpperHex)>::fmt$")
            for o in self.by_owner:
                m = rx.match(o)
                if m:
                    idx[(m.group(2) or m.group(3), m.group(1))].append(o)
                m = rf.match(o)
                if m:
                    idx[(m.group(2), m.group(1))].append(o)
            self._convidx = idx
        return idx

    @staticmethod
    def _split_gargs(g):
        g = (g or "").strip()
        if g.startswith("[") and g.endswith("]"):
            g = g[1:-1]
        out, depth, cur = [], 0, []
        for ch in g:
            if ch in "<([":
                depth += 1
            elif ch in ">)]":
                depth -= 1
            if ch == "," and depth == 0:
                out.append("".join(cur).strip())
                cur = []
            else:
                cur.append(ch)
        if cur:
            out.append("".join(cur).strip())
        return out

    def trampoline_targets(self, c):
        n = c.resolved or c.name or ""
        ga = self._split_gargs(c.gargs)
        idx = self._conv_index()
        if n.endswith("core::str::<impl str>::parse") and ga:
            return idx.get(("FromStr", ga[0]), [])
        if re.search(r"(core::convert::TryInto::try_into|TryInto<.*>>::try_into)$", n) and len(ga) >= 2:
            return idx.get(("TryFrom", ga[1]), [])
        if re.search(r"(core::convert::Into::into|Into<.*>>::into)$", n) and len(ga) >= 2:
            return idx.get(("From", ga[1]), [])
        # formatting: `format!("{x}")` / `x.to_string()` reach the workspace Display/Debug impl
        # of x's type through core::fmt's type-erased argument table
        m = re.search(r"fmt::rt::Argument(::<.*>)?::new_(display|debug|lower_hex|upper_hex)$", n)
        if m and ga:
            tr = {"display": "Display", "debug": "Debug", "lower_hex": "LowerHex",
                  "upper_hex": "UpperHex"}[m.group(2)]
            out = []
            for g in ga:
                g2 = re.sub(r"^&\s*('\{?\w+\}?\s+)?", "", g.strip())
                out += idx.get((tr, g2), [])
            return out
        if re.search(r"(string::ToString::to_string|ToString>::to_string)$", n) and ga:
            g2 = re.sub(r"^&\s*('\{?\w+\}?\s+)?", "", ga[0].strip())
            return idx.get(("Display", g2), [])
        return []

    def resolve_targets(self, c):
        out = []
        for t in self.trampoline_targets(c):
            out.append(t)
        if c.resolved and c.resolved in self.by_owner:
            out.append(c.resolved)
        elif c.resolved:
            # resolved to a closure/coroutine body?
            b = self.by_key.get(c.rkey)
            if b is not None:
                out.append(b.owner)
        if not out and c.name:
            if c.name in self.by_owner:
                out.append(c.name)
            if not c.resolved and not c.name.startswith(("core::", "std::", "alloc::")):
                # unresolved (generic/dyn receiver) call of a non-std trait method: fan out to
                # every workspace impl.  Ubiquitous std traits (Future::poll, Iterator::next,
                # Clone, fmt, ...) on opaque receivers are not fanned out: the receiver there is
                # a third-party/opaque type (Box<dyn Future>, generic S), see DESIGN soundness note
                for n in self.trait_impls.get(c.name, ()):
                    if n in self.by_owner:
                        out.append(n)
        return out

    def reachable_owners(self, roots, stop=None, cut=()):
        seen = set()
        dq = deque(r for r in roots)
        g = self.callgraph
        parent = {}
        cut = set(cut)
        while dq:
            o = dq.popleft()
            if o in seen:
                continue
            seen.add(o)
            if stop and stop(o):
                continue
            for n in sorted(g.get(o, ())):
                if (o, n) in cut:
                    continue
                if n not in seen:
                    parent.setdefault(n, o)
                    dq.append(n)
        return seen, parent


def rvalue_ops(rv):
    k = rv[0]
    if k in ("use", "rep"):
        return [rv[1]]
    if k == "cast":
        return [rv[2]]
    if k == "bin":
        return [rv[2], rv[3]]
    if k == "un":
        return [rv[2]]
    if k == "agg":
        return rv[4]
    return []


class AnchorMissing(Exception):
    pass


def path_chain(parent, node):
    out = [node]
    while node in parent:
        node = parent[node]
        out.append(node)
    return list(reversed(out))

"""Rule kinds K1..K8 (DESIGN.md section 3) on top of facts.py."""
import re
from collections import defaultdict, deque

from facts import (ADAPTERS, TRY_BRANCH, FROM_RESIDUAL, AnchorMissing, Call, op_local, op_place,
                   place_local, place_proj, rvalue_locals, rvalue_ops, short_name, path_chain)

CMP_CALLS = {
    "eq": ("Eq", False), "ne": ("Eq", True),
    "lt": ("Lt", False), "le": ("Le", False), "gt": ("Gt", False), "ge": ("Ge", False),
}
CMP_BIN = {"Eq": ("Eq", False), "Ne": ("Eq", True), "Lt": ("Lt", False), "Le": ("Le", False),
           "Gt": ("Gt", False), "Ge": ("Ge", False)}


# --------------------------------------------------------------------------------------------
# basic site finders

def result_blocks(body, variant):
    """Blocks that assign the return place `_0 = <variant>(..)` (Ok/Err/Some/None) or, for
    bodies returning through a temp, any aggregate of that variant that flows to _0."""
    out = []
    for i, j, p, rv, line in body.assigns():
        if rv[0] == "agg" and rv[1] == "adt" and rv[3] == variant and \
                rv[2] in ("core::result::Result", "core::option::Option"):
            if place_local(p) == 0 and not place_proj(p):
                out.append(i)
            else:
                # does it flow to _0 by moves?
                if flows_to_return(body, place_local(p), i):
                    out.append(i)
    return sorted(set(out))


def flows_to_return(body, local, bb, limit=40):
    taint = {local}
    seen = set()
    dq = deque([bb])
    while dq and len(seen) < limit:
        b = dq.popleft()
        if b in seen:
            continue
        seen.add(b)
        for s in body.stmts(b):
            if s[0] == "a" and s[2][0] == "use" and op_local(s[2][1]) in taint:
                if place_local(s[1]) == 0:
                    return True
                taint.add(place_local(s[1]))
        dq.extend(body.succ[b])
    return False


def bool_const_return_blocks(body, value):
    out = []
    for i, j, p, rv, line in body.assigns():
        if place_local(p) == 0 and not place_proj(p) and rv[0] == "use" and rv[1][0] == "k" \
                and rv[1][2] == "bool" and rv[1][1] in (("1", "true") if value else ("0", "false")):
            out.append(i)
    return out


def switch_parity(body, local, depth=0):
    """Follow `x = Not(y)` chains: returns (source_local, flipped)."""
    flipped = False
    while depth < 6:
        ds = body.defs.get(local, [])
        if len(ds) == 1 and ds[0][0] == "stmt" and ds[0][4][0] == "un" and ds[0][4][1] == "Not":
            l = op_local(ds[0][4][2])
            if l is None:
                break
            local = l
            flipped = not flipped
            depth += 1
            continue
        if len(ds) == 1 and ds[0][0] == "stmt" and ds[0][4][0] == "use" and \
                op_local(ds[0][4][1]) is not None and not place_proj(ds[0][4][1][1]):
            local = op_local(ds[0][4][1])
            depth += 1
            continue
        break
    return local, flipped


class Cmp:
    """A comparison whose boolean result steers a SwitchInt."""
    __slots__ = ("body", "bb", "op", "a", "b", "true_edges", "false_edges", "line", "call")

    def __repr__(self):
        return f"<cmp {self.a} {self.op} {self.b} @bb{self.bb} L{self.line}>"


def comparisons(body):
    """All comparisons (BinaryOp or PartialEq/PartialOrd calls) with the CFG edges taken when
    the comparison *as written by `op`* is true / false."""
    out = []
    # candidate producers: local -> (op, negated, rootA, rootB, bb, line, call)
    prod = {}
    for i, j, p, rv, line in body.assigns():
        if rv[0] == "bin" and rv[1] in CMP_BIN and not place_proj(p):
            op, neg = CMP_BIN[rv[1]]
            prod[place_local(p)] = (op, neg, body.root(rv[2]), body.root(rv[3]), i, line, None)
    for c in body.calls:
        s = short_name(c.callee)
        if s in CMP_CALLS and len(c.args) == 2 and \
                ("PartialEq" in c.callee or "PartialOrd" in c.callee or "cmp::" in c.callee):
            op, neg = CMP_CALLS[s]
            prod[place_local(c.dest)] = (op, neg, body.root(c.args[0]), body.root(c.args[1]),
                                         c.bb, c.line, c)
    live = body.live_blocks()
    for b in live:
        t = body.term(b)
        if t[0] != "switch":
            continue
        l = op_local(t[1])
        if l is None:
            continue
        src, flipped = switch_parity(body, l)
        if src not in prod:
            continue
        op, neg, ra, rb, pb, line, call = prod[src]
        truthy = [(b, t[3])]
        falsy = [(b, tgt) for v, tgt in t[2] if v == 0]
        if flipped:
            truthy, falsy = falsy, truthy
        if neg:
            truthy, falsy = falsy, truthy
        c = Cmp()
        c.body, c.bb, c.op, c.a, c.b = body, b, op, ra, rb
        c.true_edges, c.false_edges, c.line, c.call = truthy, falsy, line, call
        out.append(c)
    return out


_SWAP = {"Lt": "Gt", "Gt": "Lt", "Le": "Ge", "Ge": "Le", "Eq": "Eq"}
_NEG = {"Lt": "Ge", "Ge": "Lt", "Le": "Gt", "Gt": "Le"}


def _is_arith(root):
    import formula
    try:
        return formula.norm(formula.parse(root))[0] in ("sum", "prod", "bin")
    except Exception:
        return False


def rel(body, op, a_rx, b_rx, pure=True):
    """Comparisons that decide `a <op> b` in whichever way they are spelled: `a > b` is also
    `b < a`, `!(a <= b)` and `!(b >= a)`.  Returns Cmp objects re-oriented to the requested
    operator: `.a`/`.b` are the roots matching a_rx/b_rx and `.true_edges` are the CFG edges on
    which `a <op> b` holds.  (`comparisons` already folds `!=` into `Eq`.)
    With `pure` (default) an operand that is itself an arithmetic expression (`x + 1`, `2 * y`)
    does not match: a guard `a > b + 1` is not the guard `a > b`.  Rules whose operand is
    meant to be a formula pass pure=False and check the formula themselves."""
    out = []
    for c in comparisons(body):
        forms = [(c.op, c.a, c.b, c.true_edges, c.false_edges),
                 (_SWAP.get(c.op), c.b, c.a, c.true_edges, c.false_edges)]
        if c.op in _NEG:
            n = _NEG[c.op]
            forms += [(n, c.a, c.b, c.false_edges, c.true_edges),
                      (_SWAP[n], c.b, c.a, c.false_edges, c.true_edges)]
        for (o, a, b, te, fe) in forms:
            if o == op and re.search(a_rx, a) and re.search(b_rx, b):
                if pure and (_is_arith(a) or _is_arith(b)):
                    continue
                r = Cmp()
                r.body, r.bb, r.op, r.a, r.b = body, c.bb, o, a, b
                r.true_edges, r.false_edges, r.line, r.call = te, fe, c.line, c.call
                out.append(r)
                break
    return out


def for_loops(body):
    """`for` loops of a body: (next-call at the loop head, root of the iterated expression)."""
    out = []
    for c in body.calls:
        if c.matches(r"Iterator>?::next$") and c.macros and c.macros[0] == "desugar:ForLoop":
            root = body.root(c.args[0])
            # the user's name of the iterated variable, when it is one (`for x in removed_txs`)
            names = []
            for ii in body.calls:
                if ii.matches(r"IntoIterator>?::into_iter$") and ii.macros and \
                        ii.macros[0] == "desugar:ForLoop" and \
                        f"into_iter({body.root(ii.args[0])})" == root:
                    for l in body.move_chain(ii.args[0]):
                        n = body.dbg_name(str(l))
                        if n:
                            names.append(n)
            out.append((c, root + ("|" + ",".join(names) if names else "")))
    return out


def loop_leaves_early(body, head, ok_only=False):
    """True iff the `for` loop whose head is the call `head` (Iterator::next) can be left other
    than by exhausting the iterator: some path from the loop body reaches a function exit
    without coming back to the head (`break`, `return`).  With ok_only, leaving through an
    error (`?`, `bail!`, `return Err`) is allowed: only exits that can still end in `Ok(..)`
    count (the function reports success although items were skipped)."""
    oe = body.outcome_edges(head)
    some = oe.get("ok") or []
    if not some:
        return None
    if ok_only:
        targets = set(result_blocks(body, "Ok"))
        if not targets:
            return None
    else:
        targets = set(body.return_blocks())
    for (u, v) in some:
        if targets & body.reachable(v, removed_blocks=[head.bb]):
            return True
    return False


def exhaustive_loops(rep, rule, body, it_rx, floor, what, why, ok_only=False):
    """Every `for` loop of `body` whose iterated expression matches it_rx runs to exhaustion."""
    n = 0
    for head, it in for_loops(body):
        if not re.search(it_rx, it):
            continue
        n += 1
        early = loop_leaves_early(body, head, ok_only=ok_only)
        rep.check(early is False, rule, rep.nth(f"{what}:exhaustive"),
                  f"the loop over `{it[:70]}` can be left before all items were handled "
                  f"({'and still report success' if ok_only else 'break/return'}): {why}",
                  head.where())
    rep.floor(rule, n, floor, f"loops over {what}")


def must_be_equal(body, a_rx, b_rx, target_bb):
    """True iff every path to `target_bb` has established `a == b`, in any of the spellings
    `a == b` / `!(a != b)`, `match a.cmp(&b) { Equal => .. }`, or the pair `!(a < b)` and
    `!(a > b)` (two early-exit ifs).  Returns (ok, description)."""
    for c in rel(body, "Eq", a_rx, b_rx):
        if body.must_pass_edges(set(c.true_edges), target_bb):
            return True, "=="
    eq_edges = []
    for bb in sorted(body.live_blocks()):
        t = body.term(bb)
        if t[0] == "switch" and body._disc_source(bb, t) is not None:
            r = body.root(t[1])
            m = re.match(r"disc\(cmp\((.*)\)\)$", r)
            if not m:
                continue
            if not (re.search(a_rx, r) and re.search(b_rx, r)):
                continue
            for v, tgt in t[2]:
                if v == 0:
                    eq_edges.append((bb, tgt))
    if eq_edges and body.must_pass_edges(set(eq_edges), target_bb):
        return True, "cmp==Equal"
    ge = rel(body, "Ge", a_rx, b_rx)
    le = rel(body, "Le", a_rx, b_rx)
    if ge and le and any(body.must_pass_edges(set(c.true_edges), target_bb) for c in ge) and \
            any(body.must_pass_edges(set(c.true_edges), target_bb) for c in le):
        return True, ">= and <="
    return False, "no equality established"


def ordered(body, lo_rx, hi_rx, strict=False):
    """Comparisons deciding `lo <= hi` (or `lo < hi` when strict) in any of their spellings
    (`lo <= hi`, `hi >= lo`, `!(lo > hi)`, `!(hi < lo)`), as (cmp, lo_root, hi_root, edges on
    which the relation holds, edges on which it does not)."""
    res = []
    yes, no = (("Lt", "Gt"), ("Ge", "Le")) if strict else (("Le", "Ge"), ("Gt", "Lt"))
    for c in comparisons(body):
        fwd = re.search(lo_rx, c.a) and re.search(hi_rx, c.b)
        rev = re.search(hi_rx, c.a) and re.search(lo_rx, c.b)
        if fwd and c.op == yes[0]:
            res.append((c, c.a, c.b, c.true_edges, c.false_edges))
        elif rev and c.op == yes[1]:
            res.append((c, c.b, c.a, c.true_edges, c.false_edges))
        elif fwd and c.op == no[0]:
            res.append((c, c.a, c.b, c.false_edges, c.true_edges))
        elif rev and c.op == no[1]:
            res.append((c, c.b, c.a, c.false_edges, c.true_edges))
    return res


def find_cmp(body, op, ra_rx, rb_rx, symmetric=True):
    res = []
    for c in comparisons(body):
        if c.op != op:
            continue
        if re.search(ra_rx, c.a) and re.search(rb_rx, c.b):
            res.append(c)
        elif symmetric and op == "Eq" and re.search(ra_rx, c.b) and re.search(rb_rx, c.a):
            res.append(c)
    return res


# --------------------------------------------------------------------------------------------
# K1 who-may-call

def k1_callers(prog, rep, rule, sinks, allowed, floor=1, rx=None, what=None, ignore_owner=None):
    """Every call site of `sinks` must be inside an owner item listed in `allowed`
    (exact owner names or compiled regexes)."""
    callers = prog.callers_of(*sinks, rx=rx)
    n = 0
    label = what or (sinks[0] if sinks else rx)
    for owner, calls in sorted(callers.items()):
        if ignore_owner and ignore_owner(owner):
            continue
        for c in calls:
            n += 1
            ok = any((a == owner) if isinstance(a, str) else a.search(owner) for a in allowed)
            key = f"{short_name(c.callee)}<-{owner}"
            if ok:
                rep.ok(rule, key, f"{c.where()}")
            else:
                rep.fail(rule, key,
                         f"{c.callee} is called from {owner}, which is not one of its permitted "
                         f"callers", c.where())
    rep.floor(rule, n, floor, f"call sites of {label}")
    return callers


def k1_constructors(prog, rep, rule, adt_rx, allowed, floor=1, variant=None):
    """Aggregate (struct-literal) construction sites of ADTs matching adt_rx only in `allowed`."""
    n = 0
    for b in prog.bodies:
        for i, j, p, rv, line in b.aggregates("adt", adt_rx):
            if variant and rv[3] != variant:
                continue
            n += 1
            ok = any((a == b.owner) if isinstance(a, str) else a.search(b.owner) for a in allowed)
            key = f"{rv[2]}{{}}<-{b.owner}"
            if ok:
                rep.ok(rule, key, f"{b.file}:{line}")
            else:
                rep.fail(rule, key, f"{rv[2]} is constructed in {b.owner}, which is not one of "
                         f"its permitted constructors", f"{b.file}:{line}")
    rep.floor(rule, n, floor, f"construction sites of {adt_rx}")
    return n


# --------------------------------------------------------------------------------------------
# K2 dominance helpers

def guarded_by_call_ok(body, target_bb, guard_call):
    """Every path entry -> target_bb passes the success edge of guard_call."""
    oe = body.outcome_edges(guard_call)
    if not oe["ok"]:
        return False, oe
    return body.must_pass_edges(oe["ok"], target_bb), oe


def first_calls(body, pred):
    return [c for c in body.calls if pred(c)]


def k2_site_guarded(rep, rule, key, body, site_bb, guard_calls, what, where):
    """site must be dominated by the success edge of at least one of guard_calls (usually one)."""
    if not guard_calls:
        rep.fail(rule, key, f"{what}: guard call not found in {body.name}", where)
        return False
    for g in guard_calls:
        ok, oe = guarded_by_call_ok(body, site_bb, g)
        if ok:
            rep.ok(rule, key, f"guard {short_name(g.callee)} L{g.line} kind={oe['kind']} -> site {where}")
            return True
    rep.fail(rule, key, what, where)
    return False


# --------------------------------------------------------------------------------------------
# K4 arithmetic

ARITH_BIN = {"Add", "Sub", "Mul", "AddWithOverflow", "SubWithOverflow", "MulWithOverflow",
             "AddUnchecked", "SubUnchecked", "MulUnchecked", "Shl", "Shr", "Div", "Rem"}


def arith_sites(body, include_expn=False):
    """Yield (kind, name, bb, line, operands-roots) for arithmetic in the body:
    kind in raw|wrapping|saturating|checked|overflowing|div|cast."""
    for i, j, p, rv, line in body.assigns():
        if rv[0] == "bin" and rv[1] in ARITH_BIN:
            kind = "div" if rv[1] in ("Div", "Rem") else "raw"
            yield (kind, rv[1], i, line, (body.root(rv[2]), body.root(rv[3])), p)
        elif rv[0] == "cast" and rv[1].startswith("IntToInt"):
            yield ("cast", rv[3], i, line, (body.root(rv[2]),), p)
    for c in body.calls:
        s = short_name(c.callee)
        m = re.match(r"(wrapping|saturating|checked|overflowing|unchecked)_"
                     r"(add|sub|mul|div|pow|neg|rem|shl|shr|next_power_of_two)", s)
        if m and ("core::num" in c.callee or "<impl u" in c.callee or "<impl i" in c.callee
                  or "<impl usize" in c.callee):
            yield (m.group(1), s, c.bb, c.line, tuple(body.root(a) for a in c.args), c.dest)


def derives_from(body, op, pred, depth=0, seen=None):
    """Does operand `op` (transitively through defs) derive from a def matching pred(def)?"""
    if seen is None:
        seen = set()
    l = op_local(op)
    if l is None or l in seen or depth > 30:
        return None
    seen.add(l)
    for d in body.defs.get(l, []):
        r = pred(d)
        if r:
            return r
        if d[0] == "stmt":
            for o in rvalue_ops(d[4]):
                r = derives_from(body, o, pred, depth + 1, seen)
                if r:
                    return r
            if d[4][0] == "ref":
                r = derives_from(body, ["c", d[4][2]], pred, depth + 1, seen)
                if r:
                    return r
        elif d[0] == "call":
            for a in d[2].args:
                r = derives_from(body, a, pred, depth + 1, seen)
                if r:
                    return r
    return None


def div_before_mul(body):
    """(mul site, div site) pairs where a multiplication operand derives from a division."""
    out = []

    def is_div(d):
        if d[0] == "stmt" and d[4][0] == "bin" and d[4][1] == "Div":
            return ("Div", d[1])
        if d[0] == "call" and re.search(r"(checked|saturating|wrapping)_div$", short_name(d[2].callee)):
            return (short_name(d[2].callee), d[1])
        return None

    for i, j, p, rv, line in body.assigns():
        if rv[0] == "bin" and rv[1] in ("Mul", "MulWithOverflow", "MulUnchecked"):
            for o in (rv[2], rv[3]):
                r = derives_from(body, o, is_div)
                if r:
                    out.append((("Mul", i, line), r))
    for c in body.calls:
        if re.search(r"(checked|saturating|wrapping|overflowing)_mul$", short_name(c.callee)):
            for a in c.args:
                r = derives_from(body, a, is_div)
                if r:
                    out.append(((short_name(c.callee), c.bb, c.line), r))
    return out


# --------------------------------------------------------------------------------------------
# K7 panic reachability

PANIC_CALL_RX = re.compile(
    r"^core::panicking::|^std::rt::begin_panic|^core::option::Option::<T>::(unwrap|expect)$|"
    r"^core::result::Result::<T, E>::(unwrap|expect|unwrap_err|expect_err)$|"
    r"^core::option::unwrap_failed|^core::option::expect_failed|^core::result::unwrap_failed|"
    r"^core::slice::<impl \[T\]>::(split_at|split_at_mut|copy_from_slice|clone_from_slice|swap|"
    r"chunks|chunks_exact|windows|rotate_left|rotate_right|copy_within|last_chunk|first_chunk)$|"
    r"^alloc::vec::Vec::<T(, A)?>::(remove|swap_remove|drain|split_off|insert|truncate_front)$|"
    r"^core::str::<impl str>::split_at|"
    r"^core::cell::RefCell::<T>::(borrow|borrow_mut)$|"
    r"^core::ops::index::Index(Mut)?::index(_mut)?$|"
    r"^<.* as core::ops::index::Index(Mut)?<.*>>::index(_mut)?$|"
    r"^core::time::Duration::(from_secs_f64|from_secs_f32|mul_f64|div_f64)|"
    r"^<core::time::Duration as core::ops::arith::(Add|Sub|Mul|Div)|"
    r"^<std::time::Instant as core::ops::arith::(Add|Sub)|"
    r"^core::num::<impl u\d+>::(div_ceil|next_multiple_of|pow|ilog|ilog2|ilog10|div_euclid|rem_euclid|abs_diff_panic)$|"
    r"^core::num::<impl usize>::(div_ceil|next_multiple_of|pow|ilog|ilog2|ilog10|next_power_of_two)$|"
    r"^core::iter::traits::iterator::Iterator::step_by$|"
    r"^core::array::<impl .*>::try_from_unwrap"
)
ASSERT_PANIC = ("BoundsCheck", "Overflow", "OverflowNeg", "DivisionByZero", "RemainderByZero")
PANIC_MACROS = {"panic", "unreachable", "assert", "assert_eq", "assert_ne", "todo",
                "unimplemented", "debug_assert", "debug_assert_eq", "debug_assert_ne",
                "$crate::panic::panic_2021", "$crate::panic", "core::panic"}


def const_value(body, op, depth=0):
    """Integer value of an operand that is a constant or a single-def copy/cast of one."""
    if op[0] == "k":
        try:
            return int(op[1])
        except ValueError:
            return None
    l = op_local(op)
    if l is None or depth > 4 or place_proj(op[1]):
        return None
    ds = body.defs.get(l, [])
    if len(ds) == 1 and ds[0][0] == "stmt":
        rv = ds[0][4]
        if rv[0] == "use":
            return const_value(body, rv[1], depth + 1)
        if rv[0] == "cast" and rv[1].startswith("IntToInt"):
            return const_value(body, rv[2], depth + 1)
    return None


def _assert_is_constant_true(body, bb, t):
    """The assert condition is `Eq/Lt(const, const)` (or its negation) with a value that makes
    the assertion hold: division by a non-zero constant, shift by an in-range constant."""
    l = op_local(t[1])
    if l is None:
        return False
    expected = t[2]
    for s in reversed(body.stmts(bb)):
        if s[0] == "a" and place_local(s[1]) == l and not place_proj(s[1]):
            rv = s[2]
            if rv[0] == "bin":
                a, b_ = const_value(body, rv[2]), const_value(body, rv[3])
                if a is None or b_ is None:
                    return False
                val = {"Eq": a == b_, "Ne": a != b_, "Lt": a < b_, "Le": a <= b_,
                       "Gt": a > b_, "Ge": a >= b_}.get(rv[1])
                return val is not None and val == expected
            return False
    return False


def panic_sites(body):
    """Potentially panicking constructs in one body: (construct-key, bb, line, detail)."""
    out = []
    live = body.live_blocks()
    for b in sorted(live):
        t = body.term(b)
        if t[0] == "assert":
            kind = t[3].split(":")[0]
            if kind in ASSERT_PANIC:
                if _assert_is_constant_true(body, b, t):
                    continue    # e.g. `x / 32`, `x >> 1`: the checked operand is a constant
                out.append((f"assert:{t[3]}", b, t[5], t[3]))
        elif t[0] == "call":
            c = Call(body, b, t)
            if c.matches(r"::(chunks|chunks_exact|windows|step_by)$") and len(c.args) == 2 and \
                    c.args[1][0] == "k" and c.args[1][1].isdigit() and int(c.args[1][1]) > 0:
                continue        # panics only for a zero size; the size is a non-zero constant
            if "$crate::valueset" in c.macros or "tracing::valueset" in c.macros:
                # tracing's own `expect("FieldSet corrupted (this is a bug)")`: generated by the
                # third-party macro, not from user tokens (argument expressions keep root ctxt)
                continue
            for n in c.names():
                if PANIC_CALL_RX.search(n):
                    macro = next((m for m in c.macros if m in PANIC_MACROS), None)
                    detail = short_name(n)
                    if n.startswith("core::panicking::") or n.startswith("std::rt::begin_panic"):
                        detail = f"{macro or 'panic'}!"
                    # message, when it is a constant argument
                    msg = ""
                    for a in c.args:
                        if a[0] == "k" and a[2] in ("&str", "&'static str"):
                            msg = a[1][:60]
                    out.append((f"call:{detail}{(':' + msg) if msg else ''}", b, c.line, n))
                    break
    return out


def k7_panics(prog, rep, rule, entries, triage, stop=None, floor_entries=None,
              crates=None, cut=()):
    """From `entries` (owner names or regexes expanded by caller), collect all reachable panic
    constructs in workspace code.  `triage` maps 'owner|construct' -> reason (infeasible for
    untrusted input).  Anything else is a violation."""
    missing = [e for e in entries if e not in prog.by_owner]
    for m in missing:
        rep.anchor_missing(rule, m)
    roots = [e for e in entries if e in prog.by_owner]
    seen, parent = prog.reachable_owners(roots, stop=stop, cut=cut)
    n_sites = 0
    used = set()
    for owner in sorted(seen):
        for body in prog.bodies_of(owner):
            if crates and body.crate not in crates:
                continue
            # count ordinal per construct inside an owner so two equal constructs differ
            counts = defaultdict(int)
            for construct, bb, line, detail in panic_sites(body):
                counts[construct] += 1
                key = f"{owner}|{construct}#{counts[construct]}"
                loose = f"{owner}|{construct}"
                n_sites += 1
                where = f"{body.file}:{line}"
                reason = triage.get(key) or triage.get(loose)
                if reason is None:
                    for pat, r in triage.items():
                        if pat.startswith("rx:") and re.search(pat[3:], loose):
                            reason = r
                            used.add(pat)
                            break
                else:
                    used.add(key if key in triage else loose)
                if reason is not None:
                    rep.ok(rule, key, f"triaged: {reason} ({where})")
                else:
                    chain = " -> ".join(short_name(x) for x in path_chain(parent, owner)[-5:])
                    rep.fail(rule, key,
                             f"panic construct `{construct}` in {owner} is reachable from "
                             f"untrusted-input entry point via {chain}", where)
    return seen, n_sites, used


# --------------------------------------------------------------------------------------------
# K3 exhaustive matches

def enum_switches(body, prog, enum_rx):
    """SwitchInt terminators over the discriminant of a local whose type matches enum_rx.
    Returns list of (bb, type, values, has_wildcard)."""
    out = []
    for b in sorted(body.live_blocks()):
        t = body.term(b)
        if t[0] != "switch":
            continue
        src = body._disc_source(b, t)
        if src is None:
            continue
        ty = body.locals[src]
        # strip refs
        base = re.sub(r"^(&(mut )?)+", "", ty)
        if not re.search(enum_rx, base):
            continue
        otherwise = t[3]
        ot = body.term(otherwise)
        wildcard = ot[0] != "unreachable"
        out.append((b, base, [v for v, _ in t[2]], wildcard, t[4]))
    return out


def adt_variant_count(prog, name):
    a = prog.adts.get(name)
    return len(a["variants"]) if a else None


# --------------------------------------------------------------------------------------------
# success-path analysis

def error_cut(body):
    """(removed_edges, removed_blocks) that delete every *error exit* of a body returning
    Result/Option: Break edges of `?`, blocks that build `Err(..)`/`None` into the return place
    and `from_residual` calls.  What remains reachable are the success paths."""
    edges, blocks = set(), set()
    for c in body.calls:
        if c.is_(TRY_BRANCH) and c.target is not None:
            d = place_local(c.dest)
            for b in body._forward_blocks(c.target):
                t = body.term(b)
                if t[0] == "switch":
                    if body._disc_source(b, t) == d:
                        for v, tgt in t[2]:
                            if v == 1:
                                edges.add((b, tgt))
                    break
        elif c.is_(FROM_RESIDUAL) and place_local(c.dest) == 0:
            blocks.add(c.bb)
    for b in result_blocks(body, "Err"):
        blocks.add(b)
    return edges, blocks


def on_all_success_paths(body, via_edges=(), via_blocks=(), assume_removed=()):
    """True iff every success path entry -> return uses one of via_edges / via_blocks."""
    e, bl = error_cut(body)
    reach = body.reachable(0, removed_edges=set(e) | set(via_edges) | set(assume_removed),
                           removed_blocks=set(bl) | set(via_blocks))
    return not any(r in reach for r in body.return_blocks())


def const_param_false_edges(body, name_rx=r"^[A-Z_]+$"):
    """Edges taken when a const generic bool parameter is false (switch on a named constant)."""
    out = set()
    for b in body.live_blocks():
        t = body.term(b)
        if t[0] != "switch":
            continue
        op = t[1]
        if op[0] != "k":
            l = op_local(op)
            ds = body.defs.get(l, []) if l is not None else []
            if len(ds) == 1 and ds[0][0] == "stmt" and ds[0][4][0] == "use":
                op = ds[0][4][1]
        if op[0] == "k" and re.search(name_rx, op[1]):
            for v, tgt in t[2]:
                if v == 0:
                    out.add((b, tgt))
    return out


def bool_payload_edges(body, call):
    """For a call returning bool or Result<bool>/future thereof: the SwitchInt on the boolean
    value itself.  Returns (true_edges, false_edges) or None."""
    if call.target is None:
        return None
    events, taint = body.flow([place_local(call.dest)], call.target)
    for ev in events:
        if ev[0] != "switch":
            continue
        b, t = ev[1], ev[2]
        l = op_local(t[1])
        if l is None or body._disc_source(b, t) is not None:
            continue
        src, flipped = switch_parity(body, l)
        if body.locals[l] != "bool" and body.locals[src] != "bool":
            # projection like (x as Continue).0 : type of the local is the enum; accept when
            # the switch has the boolean shape [[0, f]] else t
            if not (len(t[2]) == 1 and t[2][0][0] == 0):
                continue
        te = [(b, t[3])]
        fe = [(b, tgt) for v, tgt in t[2] if v == 0]
        if flipped:
            te, fe = fe, te
        return te, fe
    return None


def bool_switches(body):
    """local -> [(bb, true_edges, false_edges)] for every SwitchInt on a (possibly negated) bool
    local that has a single definition (so all tests of it agree on one path)."""
    out = defaultdict(list)
    for b in sorted(body.live_blocks()):
        t = body.term(b)
        if t[0] != "switch" or body._disc_source(b, t) is not None:
            continue
        l = op_local(t[1])
        if l is None or place_proj(t[1][1]):
            continue
        src, flipped = switch_parity(body, l)
        if body.locals[src] != "bool" or len(body.defs.get(src, [])) != 1:
            continue
        te = [(b, t[3])]
        fe = [(b, tgt) for v, tgt in t[2] if v == 0]
        if flipped:
            te, fe = fe, te
        out[src].append((b, te, fe))
    return out


def all_edges_of_flag(body, call):
    """(true_edges, false_edges) over *every* test of the boolean produced by `call` (a flag
    stored in a variable and tested several times)."""
    be = bool_payload_edges(body, call)
    if be is None:
        return None
    sw = bool_switches(body)
    first_bb = be[0][0][0] if be[0] else (be[1][0][0] if be[1] else None)
    for src, lst in sw.items():
        if any(b == first_bb for b, _, _ in lst):
            te, fe = [], []
            for b, t_, f_ in lst:
                te += t_
                fe += f_
            return te, fe
    return be


def must_pass_block_corr(body, via_bb, target_bb):
    """must_pass_block, but paths that take contradictory branches on the same single-def bool
    flag are infeasible and ignored: target must be unreachable without `via` under both values
    of at least one flag (or unconditionally)."""
    if body.must_pass_block(via_bb, target_bb):
        return True
    for src, lst in bool_switches(body).items():
        if len(lst) < 2:
            continue
        ok = True
        for val in (True, False):
            removed = set()
            for b, te, fe in lst:
                removed |= set(fe if val else te)
            if target_bb in body.reachable(0, removed_edges=removed, removed_blocks=[via_bb]):
                ok = False
                break
        if ok:
            return True
    return False


def bool_fn_table(body, atom_of_call, max_paths=256):
    """Symbolically evaluate a small pure boolean function by enumerating its CFG paths.

    `atom_of_call(call)` names the boolean atoms (calls returning bool); enum discriminant
    switches become atoms `disc:<local root>==<v>`.  Returns a list of (assignment dict, value)
    -- one entry per path -- or None if something is not understood (fail closed)."""
    results = []
    stack = [(0, {}, {}, 0)]
    while stack:
        bb, env, asg, steps = stack.pop()
        if steps > 400 or len(results) > max_paths:
            return None
        env = dict(env)
        for s in body.stmts(bb):
            if s[0] != "a" or place_proj(s[1]):
                continue
            l = place_local(s[1])
            rv = s[2]
            val = None
            if rv[0] == "use":
                o = rv[1]
                if o[0] == "k" and o[2] == "bool":
                    val = o[1] in ("1", "true")
                elif o[0] in "cm" and not place_proj(o[1]):
                    val = env.get(place_local(o[1]))
            elif rv[0] == "un" and rv[1] == "Not":
                v = env.get(op_local(rv[2])) if op_local(rv[2]) is not None else None
                if isinstance(v, bool):
                    val = not v
                elif isinstance(v, tuple):
                    val = (v[0], v[1], not v[2])
            elif rv[0] == "disc":
                val = ("disc", body.place_root(rv[1]), False)
            env[l] = val
        t = body.term(bb)
        k = t[0]
        if k == "ret":
            v = env.get(0)
            if isinstance(v, bool):
                results.append((dict(asg), v))
            elif isinstance(v, tuple) and v[0] == "atom":
                if v[1] in asg:
                    results.append((dict(asg), asg[v[1]] != v[2]))
                else:
                    for choice in (True, False):
                        a2 = dict(asg)
                        a2[v[1]] = choice
                        results.append((a2, choice != v[2]))
            else:
                return None
        elif k in ("goto", "fe", "fu", "drop"):
            stack.append((t[1] if k != "drop" else t[2], env, asg, steps + 1))
        elif k == "call":
            c = Call(body, bb, t)
            name = atom_of_call(c)
            if t[4] is None:
                return None
            env[place_local(c.dest)] = ("atom", name, False) if name else None
            stack.append((t[4], env, asg, steps + 1))
        elif k == "switch":
            l = op_local(t[1])
            v = env.get(l) if l is not None else None
            if isinstance(v, bool):
                tgt = t[3] if v else next((x[1] for x in t[2] if x[0] == 0), t[3])
                stack.append((tgt, env, asg, steps + 1))
            elif isinstance(v, tuple) and v[0] == "atom":
                for choice in ((asg[v[1]],) if v[1] in asg else (True, False)):
                    a2 = dict(asg)
                    a2[v[1]] = choice
                    truth = choice != v[2]
                    tgt = t[3] if truth else next((x[1] for x in t[2] if x[0] == 0), t[3])
                    stack.append((tgt, env, a2, steps + 1))
            elif isinstance(v, tuple) and v[0] == "disc":
                for val, tgt in t[2]:
                    a2 = dict(asg)
                    a2[f"disc:{v[1]}"] = val
                    stack.append((tgt, env, a2, steps + 1))
                a2 = dict(asg)
                a2[f"disc:{v[1]}"] = "other"
                if body.term(t[3])[0] != "unreachable":
                    stack.append((t[3], env, a2, steps + 1))
            else:
                return None
        elif k == "unreachable":
            continue
        else:
            return None
    return results


def table_matches(table, expected, atoms):
    """Every enumerated path agrees with `expected(full assignment)` for all completions."""
    import itertools
    if table is None:
        return False, "function shape not understood"
    for asg, val in table:
        free = [a for a in atoms if a not in asg]
        for combo in itertools.product((True, False), repeat=len(free)):
            full = dict(asg)
            full.update(dict(zip(free, combo)))
            exp = expected(full)
            if exp is None:
                continue
            if exp != val:
                return False, f"under {full} the function returns {val}, expected {exp}"
    return True, f"{len(table)} paths agree"

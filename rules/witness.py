"""K9: type-level witnesses.  Each `fail_*` binary under /verif/witnesses/<crate>/src/bin must be
rejected by rustc with exactly the error code in its `// expect: E....` header when type-checked
against /repo's current sources; each `ok_*` twin (the same API used legally) must type-check, so a
witness whose path merely rotted (renamed type, moved module) is reported as a broken witness
instead of passing.  Nothing is executed: `cargo +nightly check` only."""
import fcntl
import glob
import json
import os
import re
import shutil
import subprocess

import engine

HDR = re.compile(r"//\s*expect:\s*(E\d{4})\s+property:\s*(.*)")


def witnesses(crate):
    out = []
    for f in sorted(glob.glob(os.path.join(engine.VERIF, "witnesses", crate, "src", "bin", "*.rs"))):
        name = os.path.basename(f)[:-3]
        first = open(f).readline()
        m = HDR.match(first)
        out.append({"crate": crate, "name": name, "file": f,
                    "expect": m.group(1) if m else None,
                    "props": re.findall(r"C\d\d", m.group(2)) if m else []})
    return out


def run(crate):
    """Type-check one witness crate; returns {bin name: {"codes": [...], "ok": bool}}."""
    # the crate is materialised next to the fact files (so the thorough tier's scratch copy of
    # /repo gets its own), with its path dependencies pointing at the tree under analysis
    src = os.path.join(engine.VERIF, "witnesses", crate)
    d = os.path.join(os.path.dirname(engine.FACTS), "witnesses", crate)
    if os.path.exists(d):
        shutil.rmtree(d)
    shutil.copytree(os.path.join(src, "src"), os.path.join(d, "src"))
    with open(os.path.join(d, "Cargo.toml"), "w") as f:
        f.write(open(os.path.join(src, "Cargo.toml.in")).read().replace("@REPO@", engine.REPO))
    shutil.copy(os.path.join(engine.REPO, "Cargo.lock"), os.path.join(d, "Cargo.lock"))
    env = engine.driver_env()
    env["ASTRIA_FACTS_CRATES"] = ""          # shim only; no fact extraction for the witnesses
    lock = open(os.path.join(engine.CACHE, "facts.lock"), "w")
    fcntl.flock(lock, fcntl.LOCK_EX)
    try:
        r = subprocess.run(["cargo", "+nightly", "check", "--offline", "--bins", "--keep-going",
                            "--message-format=json"], cwd=d, env=env,
                           stdout=subprocess.PIPE, stderr=subprocess.PIPE, text=True)
    finally:
        fcntl.flock(lock, fcntl.LOCK_UN)
        lock.close()
    res = {}
    dep_error = None
    for line in r.stdout.splitlines():
        try:
            m = json.loads(line)
        except ValueError:
            continue
        if m.get("reason") == "compiler-message":
            msg = m["message"]
            if msg.get("level") != "error":
                continue
            if "astria-witnesses" not in m.get("package_id", ""):
                dep_error = msg.get("message")
                continue
            code = (msg.get("code") or {}).get("code")
            e = res.setdefault(m["target"]["name"], {"codes": [], "ok": False, "msgs": []})
            if code:
                e["codes"].append(code)
                e["msgs"].append(msg.get("message", "")[:160])
        elif m.get("reason") == "compiler-artifact" and "astria-witnesses" in m.get("package_id", ""):
            res.setdefault(m["target"]["name"], {"codes": [], "ok": False, "msgs": []})["ok"] = True
    return res, dep_error, r.stderr[-2000:]


def check(rep, crates, pid):
    """Record K9 obligations for the witnesses that name property `pid`."""
    n = 0
    for crate in crates:
        ws = [w for w in witnesses(crate)]
        mine = [w for w in ws if w["name"].startswith("fail_") and pid in w["props"]]
        if not mine:
            continue
        res, dep_error, err = run(crate)
        if dep_error is not None:
            # /repo itself does not type-check with the witness feature set: no verdict here;
            # ensure_facts has already established that the workspace compiles
            rep.fail("K9", f"witness-crate:{crate}", f"dependency failed to type-check: {dep_error}")
            continue
        twins_ok = True
        for w in ws:
            if w["name"].startswith("ok_"):
                ok = res.get(w["name"], {}).get("ok", False)
                twins_ok &= ok
                rep.check(ok, "K9", f"twin:{crate}:{w['name']}",
                          "the legal-use twin no longer type-checks (witness path rotted: update "
                          "the witness, this is not a property verdict): "
                          + "; ".join(res.get(w["name"], {}).get("msgs", []))[:300],
                          where=w["file"])
        for w in mine:
            r = res.get(w["name"], {"codes": [], "ok": False, "msgs": []})
            n += 1
            if r["ok"]:
                rep.fail("K9", f"witness:{crate}:{w['name']}",
                         f"a program that must be rejected ({w['expect']}) now type-checks: the "
                         "type-level barrier is gone", where=w["file"])
            elif w["expect"] not in r["codes"]:
                rep.fail("K9", f"witness:{crate}:{w['name']}",
                         f"rejected, but not with {w['expect']} (got {r['codes']}): the witness "
                         "fails for another reason and proves nothing", where=w["file"])
            elif set(r["codes"]) != {w["expect"]}:
                rep.fail("K9", f"witness:{crate}:{w['name']}",
                         f"rejected with extra errors {r['codes']}", where=w["file"])
            else:
                rep.ok("K9", f"witness:{crate}:{w['name']}",
                       f"rejected with {w['expect']}: {r['msgs'][0] if r['msgs'] else ''}")
    return n

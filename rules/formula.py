"""Canonical arithmetic form of operand roots (rule kind K5, "formula" variant).

`Body.root` resolves an operand through temporaries, copies and single definitions to an
expression string such as
    unwrap(checked_add(unwrap(checked_add(i,const(1))),complete_root(unwrap(checked_sub(n,..)))))
This module parses such a string and rewrites it to a canonical form in which spelling
differences that cannot change the value disappear:

  * `unwrap` / `expect` / `?` plumbing is transparent;
  * `checked_*`, `wrapping_*`, `saturating_*`, `overflowing_*` and the raw operators are the same
    operation (the overflow discipline is judged separately, by the K4 rules);
  * sums are flattened, subtraction is addition of the negated term, constants are folded and
    the terms are sorted: `i + 1 + f(n - (i + 1))` == `f(n - i - 1) + (1 + i)`;
  * products likewise; `x << k` is `x * 2^k`, `x >> k` is `x / 2^k` for constant k;
  * `&`, `|`, `^`, `==`, `!=` have sorted operands; `a > b` is written `b < a`, `a >= b` as
    `b <= a`;
  * calls to other functions are uninterpreted symbols applied to canonical arguments.

Two formulas are reported equal only if their canonical forms are identical, so the comparison
is sound for "same value" up to the listed identities and never claims more.  A behaviour-
preserving rewrite outside these identities (a different algorithm for the same function) would
be reported as a changed formula; the rules that use this module say so.
"""
import re

TRANSPARENT = {"unwrap", "expect", "unwrap_or_default", "into", "from", "clone", "copied", "cloned",
               "deref", "as_ref", "borrow", "to_owned", "get"}
ARITH = {
    "add": "+", "sub": "-", "mul": "*", "div": "/", "rem": "%", "shl": "<<", "shr": ">>",
    "pow": "pow",
}
BIN = {
    "Add": "+", "Sub": "-", "Mul": "*", "Div": "/", "Rem": "%", "Shl": "<<", "Shr": ">>",
    "AddWithOverflow": "+", "SubWithOverflow": "-", "MulWithOverflow": "*",
    "AddUnchecked": "+", "SubUnchecked": "-", "MulUnchecked": "*", "ShlUnchecked": "<<",
    "ShrUnchecked": ">>",
    "BitAnd": "&", "BitOr": "|", "BitXor": "^",
    "Eq": "==", "Ne": "!=", "Lt": "<", "Le": "<=", "Gt": ">", "Ge": ">=",
}


class ParseError(Exception):
    pass


def _split_top(s, sep=","):
    out, depth, cur = [], 0, []
    for ch in s:
        if ch in "([{<" and not (ch == "<" and False):
            depth += ch in "([{"
        if ch in ")]}":
            depth -= 1
        if ch == sep and depth == 0:
            out.append("".join(cur))
            cur = []
        else:
            cur.append(ch)
    if cur or out:
        out.append("".join(cur))
    return [x.strip() for x in out]


def parse(s):
    """-> nested tuples: ('const', int) | ('sym', name) | ('call', name, [args]) |
    ('bin', op, a, b) | ('not', a)"""
    s = s.strip()
    # strip result/option plumbing suffixes added by root(): <Continue>.0, <Some>.0, <Ready>.0 ..
    s2 = re.sub(r"(<(Continue|Some|Ok|Ready)>\.0)+$", "", s)
    if s2 != s:
        return parse(s2)
    m = re.match(r"^(\(.*\))((\.\w+)+)$", s)
    if m and _matching(s, 0) == len(m.group(1)) - 1:
        node = parse(m.group(1))
        for f in [x for x in m.group(2).split(".") if x]:
            node = ("field", f, node)
        return node
    if s.startswith("(") and s.endswith(")") and _matching(s, 0) == len(s) - 1:
        inner = s[1:-1]
        # a OP b at depth 0
        depth = 0
        i = 0
        while i < len(inner):
            ch = inner[i]
            if ch in "([{":
                depth += 1
            elif ch in ")]}":
                depth -= 1
            elif ch == " " and depth == 0:
                m = re.match(r" (\w+) ", inner[i:])
                if m and m.group(1) in BIN:
                    a, b = inner[:i], inner[i + len(m.group(0)):]
                    return ("bin", BIN[m.group(1)], parse(a), parse(b))
            i += 1
        return parse(inner)
    m = re.match(r"^const\((-?\d+)(_?[iu]\w+)?\)$", s)
    if m:
        return ("const", int(m.group(1)))
    m = re.match(r"^([A-Za-z_][\w:<>, ]*?)\((.*)\)((\.\w+)*)$", s)
    if m and _matching(s, len(m.group(1))) == len(s) - 1 - len(m.group(3)):
        name = m.group(1).split("::")[-1]
        args = [parse(a) for a in _split_top(m.group(2))] if m.group(2).strip() else []
        node = ("call", name, args)
        if name == "Not" and len(args) == 1:
            node = ("not", args[0])
        for f in [x for x in m.group(3).split(".") if x]:
            node = ("field", f, node)
        return node
    return ("sym", s)


def _matching(s, i):
    """index of the bracket matching the '(' at s[i]"""
    depth = 0
    for j in range(i, len(s)):
        if s[j] == "(":
            depth += 1
        elif s[j] == ")":
            depth -= 1
            if depth == 0:
                return j
    return -1


def _arith_call(name):
    m = re.match(r"^(checked|wrapping|saturating|overflowing|unchecked|strict)_(\w+)$", name)
    if m and m.group(2) in ARITH:
        return ARITH[m.group(2)]
    if name in ARITH:
        return ARITH[name]
    return None


def _terms(e, sign, out):
    """flatten a sum into (sign, canonical term) / constant"""
    if e[0] == "sum":
        for s, t in e[1]:
            _terms(t, sign * s, out)
        out["c"] += sign * e[2]
    elif e[0] == "const":
        out["c"] += sign * e[1]
    else:
        out["t"].append((sign, e))


def _factors(e, out):
    if e[0] == "prod":
        for t in e[1]:
            _factors(t, out)
        out["c"] *= e[2]
    elif e[0] == "const":
        out["c"] *= e[1]
    else:
        out["t"].append(e)


def norm(e):
    k = e[0]
    if k in ("const", "sym"):
        return e
    if k == "field":
        inner = norm(e[2])
        # (a +WithOverflow b).0 is the sum itself
        if e[1] == "0" and inner[0] in ("sum", "prod"):
            return inner
        return ("field", e[1], inner)
    if k == "not":
        return ("not", norm(e[1]))
    if k == "call":
        name, args = e[1], [norm(a) for a in e[2]]
        if name in TRANSPARENT and args:
            return args[0]
        op = _arith_call(name)
        if op and len(args) == 2:
            return norm_bin(op, args[0], args[1])
        return ("call", name, args)
    if k == "bin":
        return norm_bin(e[1], norm(e[2]), norm(e[3]))
    return e


def norm_bin(op, a, b):
    if op in ("+", "-"):
        out = {"t": [], "c": 0}
        _terms(a, 1, out)
        _terms(b, 1 if op == "+" else -1, out)
        terms = sorted(out["t"], key=lambda st: (show(st[1]), -st[0]))
        # cancel x - x
        res = []
        for s, t in terms:
            if res and res[-1][1] == t and res[-1][0] == -s:
                res.pop()
            else:
                res.append((s, t))
        if not res:
            return ("const", out["c"])
        if len(res) == 1 and res[0][0] == 1 and out["c"] == 0:
            return res[0][1]
        return ("sum", res, out["c"])
    if op == "*":
        out = {"t": [], "c": 1}
        _factors(a, out)
        _factors(b, out)
        ts = sorted(out["t"], key=show)
        if not ts:
            return ("const", out["c"])
        if len(ts) == 1 and out["c"] == 1:
            return ts[0]
        return ("prod", ts, out["c"])
    if op == "<<" and b[0] == "const" and 0 <= b[1] < 128:
        return norm_bin("*", a, ("const", 1 << b[1]))
    if op == ">>" and b[0] == "const" and 0 <= b[1] < 128:
        return norm_bin("/", a, ("const", 1 << b[1]))
    if op == "/" and b == ("const", 1):
        return a
    if op in ("&", "|", "^", "==", "!="):
        x, y = sorted([a, b], key=show)
        return ("bin", op, x, y)
    if op == ">":
        return ("bin", "<", b, a)
    if op == ">=":
        return ("bin", "<=", b, a)
    return ("bin", op, a, b)


def show(e):
    k = e[0]
    if k == "const":
        return str(e[1])
    if k == "sym":
        return e[1]
    if k == "field":
        return f"{show(e[2])}.{e[1]}"
    if k == "not":
        return f"!{show(e[1])}"
    if k == "call":
        return f"{e[1]}({', '.join(show(a) for a in e[2])})"
    if k == "sum":
        parts = []
        for s, t in e[1]:
            parts.append(("- " if s < 0 else "+ ") + show(t))
        if e[2]:
            parts.append(("- " if e[2] < 0 else "+ ") + str(abs(e[2])))
        txt = " ".join(parts)
        return "(" + (txt[2:] if txt.startswith("+ ") else txt) + ")"
    if k == "prod":
        fs = ([str(e[2])] if e[2] != 1 else []) + [show(t) for t in e[1]]
        return "(" + " * ".join(fs) + ")"
    if k == "bin":
        return f"({show(e[2])} {e[1]} {show(e[3])})"
    return str(e)


def canon(root):
    """canonical string of a root expression (the raw string if it cannot be parsed)"""
    try:
        return show(norm(parse(root)))
    except (ParseError, RecursionError, IndexError, ValueError):
        return root


def positional(body, root):
    """rename the function's parameters to $1, $2, .. so that formulas survive a rename"""
    for name, place in body.dbg:
        if place.isdigit() and 1 <= int(place) <= body.argc:
            root = re.sub(r"(?<![\w.])" + re.escape(name) + r"(?![\w(])", f"${place}", root)
    return root


def return_formulas(body):
    """Canonical formulas of every value assigned to the return place of `body`, with the
    parameters written positionally."""
    from facts import short_name

    def R(x):
        return positional(body, body.root(x))
    out = []
    for d in body.defs.get(0, []):
        if d[0] == "stmt":
            rv = d[4]
            if rv[0] == "use":
                out.append(canon(R(rv[1])))
            elif rv[0] == "bin":
                out.append(canon(f"({R(rv[2])} {rv[1]} {R(rv[3])})"))
            elif rv[0] == "un":
                out.append(canon(f"{rv[1]}({R(rv[2])})"))
            elif rv[0] == "agg":
                out.append(rv[2].split("::")[-1] + (("::" + rv[3]) if rv[3] else "") + "(" +
                           ", ".join(canon(R(x)) for x in rv[4]) + ")")
            else:
                out.append(rv[0])
        elif d[0] == "call":
            c = d[2]
            out.append(canon(f"{short_name(c.callee)}(" + ",".join(R(a) for a in c.args) + ")"))
    return sorted(out)

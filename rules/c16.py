"""C16 Composer bundles each accepted transaction once, in order, within the size limit.

 G1 (K2+K6b) SizedBundle::try_push: the buffer grows (and curr_size is assigned) only on the
    false edges of both size comparisons (action > max; curr + action > max); curr_size is
    assigned exactly the compared new size, which is curr_size (+) the action's encoded length;
    refusing paths assign nothing to self; what is stored in the buffer is exactly the value
    whose encoded length was charged (no conversion or in-place edit between measuring and
    storing).
 G2 (K1) the finished queue is only touched by push_back (try_push), pop_front (pop_now,
    NextFinishedBundle::pop), len/is_empty; the buffer only by push / flush's replace.
 G3 (K2) BundleFactory::try_push: a flush (push_back of the current bundle) happens only on the
    NotEnoughSpace arm behind `finished.len() < capacity`, and the refused action is then pushed
    into the fresh bundle; the FinishedQueueFull / TooLarge paths mutate nothing.
 G4 (K2) pop_now flushes the current bundle only when the finished queue is empty.
Not decided: exactly-once over all push/pop sequences.
"""
import re

from facts import short_name
from kinds import (rel, comparisons, k1_callers, result_blocks, bool_payload_edges)

CRATES = ["astria_composer.lib"]
BF = "astria_composer::executor::bundle_factory::"


def is_test_owner(o):
    return "::tests" in o or "::test::" in o or "test_utils" in o


def run(prog, rep):
    rep.explanation = (
        "Must-dominate, failure-atomicity and who-may-touch rules on the composer's bundle "
        "factory MIR: the bundle buffer and size grow only behind both size comparisons and by "
        "the compared amount; refusing paths do not write to self; the finished queue is FIFO by "
        "construction (push_back / pop_front only); a flush only happens when the queue has "
        "room and is followed by the push of the refused action; pop_now prefers finished "
        "bundles. Exactly-once over all operation sequences is not decided.")
    rep.assumptions += ["production cfg only"]
    g1(prog, rep)
    g2(prog, rep)
    g3(prog, rep)
    g4(prog, rep)


def self_assigns(body):
    out = []
    for i, j, p, rv, line in body.assigns():
        parts = p.split("|")
        if parts[0] == "1" and len(parts) > 1 and parts[1] == "*":
            out.append((i, p, rv, line))
    return out


def g1(prog, rep):
    body = prog.main_body(BF + "SizedBundle::try_push")
    cm = rel(body, "Gt", r".", r"^self\.max_size$", pure=False)
    rep.floor("G1", len(cm), 2, "size comparisons in SizedBundle::try_push")
    push = [c for c in body.calls if c.matches(r"alloc::vec::Vec::<T, A>::push$")
            and body.root(c.args[0]) == "self.buffer"]
    asg = [(i, p, rv, line) for (i, p, rv, line) in self_assigns(body) if p.endswith(".curr_size")]
    rep.floor("G1", len(push), 1, "buffer.push")
    rep.floor("G1", len(asg), 1, "curr_size assignment")
    sites = [(c.bb, c.where(), "buffer.push") for c in push] + \
            [(i, f"{body.file}:{line}", "curr_size=") for (i, p, rv, line) in asg]
    for bb, where, nm in sites:
        for c in cm:
            which = "action>max" if "encoded_len(" in c.a and "saturating_add" not in c.a else "new>max"
            rep.check(body.must_pass_edges(set(c.false_edges), bb), "G1", f"{nm}<=not({which})",
                      f"the bundle grows although `{c.a[:50]} > max_size` was not tested false",
                      where)
    # curr_size := the compared new size = curr_size + encoded_len(action)
    new = [c for c in cm if "saturating_add" in c.a or "checked_add" in c.a or " Add " in c.a]
    for (i, p, rv, line) in asg:
        val = body.root(rv[1]) if rv[0] == "use" else rv[0]
        ok = bool(new) and val == new[0].a and \
            re.search(r"(saturating|checked)_add\(self\.curr_size,encoded_len\(seq_action\)\)", val) is not None
        rep.check(ok, "G1", "curr_size=compared-new-size",
                  f"curr_size is set to `{val[:80]}`, not to the size that was compared with "
                  f"max_size (curr_size + encoded_len(action))", f"{body.file}:{line}", detail=val[:80])
    # refusing paths assign nothing to self
    errs = set(result_blocks(body, "Err"))
    writes = [(i, line) for (i, p, rv, line) in self_assigns(body)] + [(c.bb, c.line) for c in push]
    ent = [c for c in body.calls if c.matches(r"HashMap::<K, V, S, A>::entry$")
           and "self.rollup_counts" in body.root(c.args[0])]
    writes += [(c.bb, c.line) for c in ent]
    bad = [ln for (i, ln) in writes if errs & body.reachable(i)]
    rep.check(not bad, "G1", "refusal-mutates-nothing",
              f"SizedBundle::try_push can modify the bundle (line {bad}) and still refuse the action",
              body.describe())
    oks = result_blocks(body, "Ok")
    rep.check(bool(oks) and bool(push) and all(body.must_pass_block(push[0].bb, o) for o in oks), "G1",
              "ok=>pushed", "try_push can report success without storing the action", body.describe())
    # what is stored is exactly what was measured: the bundle holds Action::RollupDataSubmission
    # of the very value whose encoded length was charged (no conversion in between - e.g. a fee
    # asset rewritten to its longer ibc/.. form after measuring - and no in-place edit)
    measured = {body.root(c.args[0]) for c in body.calls if short_name(c.callee) == "encoded_len"}
    for c in push:
        r = body.root(c.args[1])
        m = re.fullmatch(r"adt:[\w:]*Action::RollupDataSubmission\{(.*)\}", r)
        stored = m.group(1) if m else r
        rep.check(bool(m) and stored in measured and len(measured) == 1, "G1", "stored=measured",
                  f"the bundle stores `{stored[:70]}` but charged the encoded length of "
                  f"{sorted(x[:50] for x in measured)}: the size accounting does not describe the "
                  "bytes that are submitted", c.where())
        edits = [f"{what} (L{line})" for l in body.move_chain(c.args[1])
                 for (_bb, line, what) in body.mut_uses(l)]
        for i, j, p, rv, line in body.aggregates("adt", r"action::Action$"):
            for opnd in rv[4]:
                edits += [f"{what} (L{ln})" for l in body.move_chain(opnd)
                          for (_bb, ln, what) in body.mut_uses(l)]
        rep.check(not edits, "G1", "stored-unedited",
                  f"the measured action is modified in place before it is stored: {edits[:3]}",
                  c.where())


def g2(prog, rep):
    n = 0
    for o in prog.owners(r"^astria_composer::"):
        if is_test_owner(o):
            continue
        for b in prog.bodies_of(o):
            for c in b.calls:
                if not c.matches(r"alloc::collections::vec_deque::VecDeque::<T, A>::\w+$"):
                    continue
                if not c.args or not b.root(c.args[0]).endswith(".finished"):
                    continue
                n += 1
                m = short_name(c.callee)
                allowed = {
                    "push_back": [BF + "BundleFactory::try_push"],
                    "pop_front": [BF + "BundleFactory::pop_now", BF + "NextFinishedBundle::<'_>::pop"],
                    "len": None, "is_empty": None, "new": None,
                }
                key = f"finished.{m}<-{short_name(o)}"
                if m not in allowed:
                    rep.fail("G2", key, f"{o} calls VecDeque::{m} on the finished queue: only "
                             f"push_back/pop_front keep it FIFO", c.where())
                elif allowed[m] is not None:
                    rep.check(o in allowed[m], "G2", key,
                              f"{o} calls {m} on the finished queue", c.where())
                else:
                    rep.ok("G2", key, "read-only")
    rep.floor("G2", n, 5, "uses of the finished queue")
    # buffer: push in SizedBundle::try_push only; replaced only by flush
    nb = 0
    for o in prog.owners(r"^astria_composer::executor::bundle_factory::"):
        if is_test_owner(o):
            continue
        for b in prog.bodies_of(o):
            for c in b.calls:
                if c.matches(r"alloc::vec::Vec::<T, A>::(push|insert|remove|pop|clear|truncate|"
                             r"swap_remove|drain|retain|extend\w*)$") and c.args and \
                        b.root(c.args[0]).endswith(".buffer"):
                    nb += 1
                    rep.check(o == BF + "SizedBundle::try_push" and short_name(c.callee) == "push",
                              "G2", f"buffer.{short_name(c.callee)}<-{short_name(o)}",
                              f"{o} mutates the bundle buffer with {short_name(c.callee)}", c.where())
    rep.floor("G2", nb, 1, "buffer mutations")
    b = prog.main_body(BF + "SizedBundle::flush")
    rp = [c for c in b.calls if c.matches(r"core::mem::replace$")]
    rep.check(len(rp) == 1 and b.root(rp[0].args[0]) == "self" and "new(" in b.root(rp[0].args[1])
              and "self.max_size" in b.root(rp[0].args[1]), "G2", "flush=replace-with-empty",
              "flush does not hand out the whole current bundle and leave an empty one", b.describe())


def g3(prog, rep):
    body = prog.main_body(BF + "BundleFactory::try_push")
    tp = [c for c in body.calls if c.is_(BF + "SizedBundle::try_push")]
    pb = [c for c in body.calls if c.matches(r"VecDeque::<T, A>::push_back$")]
    fl = [c for c in body.calls if c.is_(BF + "SizedBundle::flush")]
    rep.floor("G3", len(tp), 2, "SizedBundle::try_push calls in BundleFactory::try_push")
    rep.floor("G3", len(pb), 1, "finished.push_back")
    cap = rel(body, "Ge", r"len\(self\.finished\)", r"^self\.finished_queue_capacity$")
    first = min(tp, key=lambda c: c.bb) if tp else None
    for p in pb:
        rep.check(bool(cap) and body.must_pass_edges(set(cap[0].false_edges), p.bb), "G3",
                  "flush<=queue-has-room",
                  "the current bundle is flushed into the finished queue although the queue is at "
                  "capacity", p.where())
        rep.check(bool(fl) and "flush(self.curr_bundle)" in body.root(p.args[1]), "G3",
                  "pushed=flushed-current", f"push_back({body.root(p.args[1])[:60]})", p.where())
        # only on the NotEnoughSpace arm of the first try_push
        if first is not None:
            r = " ".join(body.root(a) for a in p.args)
            arm = None
            for bb in sorted(body.live_blocks()):
                t = body.term(bb)
                if t[0] == "switch" and body.root(t[1]).startswith("disc(try_push(self.curr_bundle") and \
                        "<Err>" in body.root(t[1]):
                    arm = (bb, t)
            ok = False
            if arm:
                bb, t = arm
                adt = prog.adts.get(BF + "SizedBundleError")
                idx = None
                if adt:
                    for i, v in enumerate(adt["variants"]):
                        if v[0] == "NotEnoughSpace":
                            idx = i
                edges = [(bb, tgt) for v, tgt in t[2] if v == idx]
                if not edges and idx is not None and all(v != idx for v, _ in t[2]):
                    edges = [(bb, t[3])]
                ok = bool(edges) and body.must_pass_edges(set(edges), p.bb)
            rep.check(ok, "G3", "flush<=NotEnoughSpace-arm",
                      "a flush can happen although the action was accepted or is too large", p.where())
    # after the flush the refused action is pushed again
    if len(tp) >= 2 and pb:
        second = max(tp, key=lambda c: c.bb)
        oks = result_blocks(body, "Ok")
        reach = body.reachable(pb[0].target, removed_blocks=[second.bb])
        rep.check(not (set(oks) & reach), "G3", "flush=>repush",
                  "after flushing, try_push can return Ok without pushing the refused action into "
                  "the new bundle (the transaction would be lost)", second.where())
        rep.check("<NotEnoughSpace>.0" in body.root(second.args[1]) or "seq_action" in body.root(second.args[1]),
                  "G3", "repush-operand", f"re-pushes {body.root(second.args[1])[:70]}", second.where())
    # refusing paths: no self write
    errs = set(result_blocks(body, "Err"))
    bad = [c.line for c in pb + fl if errs & body.reachable(c.bb)]
    rep.check(not bad, "G3", "refusal-mutates-nothing",
              "BundleFactory::try_push can flush and still refuse the action", body.describe())


def g4(prog, rep):
    body = prog.main_body(BF + "BundleFactory::pop_now")
    pf = [c for c in body.calls if c.matches(r"VecDeque::<T, A>::pop_front$")]
    rep.floor("G4", len(pf), 1, "pop_front in pop_now")
    # flush happens inside the or_else closure (runs only on None) or behind the None edge
    fl_main = [c for c in body.calls if c.is_(BF + "SizedBundle::flush")]
    fl_all = [c for c in prog.calls_in(BF + "BundleFactory::pop_now") if c.is_(BF + "SizedBundle::flush")]
    rep.floor("G4", len(fl_all), 1, "flush in pop_now")
    ok = True
    for c in fl_main:
        oe = body.outcome_edges(pf[0]) if pf else {"kind": "none"}
        ok &= oe["kind"] == "match_option" and body.must_pass_edges(set(oe["err"]), c.bb)
    for c in fl_all:
        if c.body is body:
            continue
        # closure: must be the argument of Option::or_else on pop_front's result
        oe_calls = [x for x in body.calls if x.matches(r"Option::<T>::or_else$")]
        ok &= bool(oe_calls) and "pop_front(self.finished)" in body.root(oe_calls[0].args[0]) and \
            c.body.name in body.root(oe_calls[0].args[1])
    rep.check(ok, "G4", "flush<=finished-empty",
              "pop_now flushes the current bundle although a finished bundle is waiting (bundles "
              "would be emitted out of order)", body.describe())
    b = prog.main_body(BF + "NextFinishedBundle::<'_>::pop")
    pf = [c for c in b.calls if c.matches(r"VecDeque::<T, A>::pop_front$")]
    rep.check(len(pf) == 1 and "bundle_factory.finished" in b.root(pf[0].args[0]), "G4",
              "next-finished=pop_front", "NextFinishedBundle::pop does not take the oldest finished "
              "bundle", b.describe())

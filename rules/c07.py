"""C07 Rollup data is complete, ordered and provable from block to rollup.

 R1 (K1+K2) constructor discipline for the checked block types: aggregates only in the listed
    constructors; in each *validating* constructor the accepted value is only built behind the
    true edges of all of its validators (Merkle proofs against the header's data hash, root
    comparisons); `unchecked_from_parts` is only called from the sequencer's own storage read
    path.
 R2 (K2) ordering: the rollup map is sorted by key before any Merkle tree is derived (try_build
    and the proposal commitment); `into_filtered_block` snapshots all rollup ids before it
    removes any entry.
 R3 (K3c) the two filter routines agree field by field.
 R5 (K2) a binary search is only performed over a sequence that was sorted first (the
    sequencer's filtered-block endpoint filters requested ids against the block's sorted ids).
 R6 (K2, shared with C09-Q4) conductor reconstruction: a header blob leaves the map only behind
    the successful lookup-and-verify of the rollup blob that names it; blocks are built from
    the blob's own rollup id and the verified header.
 R4 (K5) the Celestia split copies each rollup's own (id, transactions, proof) under the
    block's hash and lists exactly the ids of the rollup map; the conductor audits
    (rollup id || root(transactions)) with the blob's own proof against the metadata's root and
    only for its own rollup id (C09-Q4).
Not decided: equality of served data with block contents for all blocks (values).
"""
import re

from facts import short_name
from kinds import (error_cut, for_loops, k1_callers, k1_constructors, bool_payload_edges, comparisons, result_blocks)

CRATES = ["astria_core.lib", "astria_sequencer.lib", "astria_conductor.lib",
          "astria_sequencer_relayer.lib", "astria_merkle.lib"]
B = "astria_core::sequencerblock::v1::"
BL = B + "block::"
CE = B + "celestia::"


def is_test_owner(o):
    return "::tests" in o or "::test::" in o or "test_utils" in o or "benchmark" in o


def clone_of(t):
    return re.compile(r"^<" + re.escape(t) + r" as core::clone::Clone>::clone$")


CONSTRUCTORS = {
    BL + "SequencerBlock": [BL + "SequencerBlock::try_from_raw", BL + "SequencerBlock::unchecked_from_parts",
                            BL + "SequencerBlockBuilder::try_build"],
    BL + "FilteredSequencerBlock": [BL + "FilteredSequencerBlock::try_from_raw",
                                    BL + "SequencerBlock::into_filtered_block",
                                    BL + "SequencerBlock::to_filtered_block"],
    CE + "SubmittedMetadata": [CE + "PreparedBlock::from_sequencer_block",
                               CE + "SubmittedMetadata::try_from_unchecked"],
    CE + "SubmittedRollupData": [CE + "PreparedBlock::from_sequencer_block",
                                 CE + "SubmittedRollupData::from_unchecked",
                                 CE + "SubmittedRollupData::try_from_raw"],
    BL + "RollupTransactions": [BL + "RollupTransactions::try_from_raw",
                                BL + "RollupTransactions::unchecked_from_parts",
                                BL + "SequencerBlockBuilder::try_build"],
    BL + "ExtendedCommitInfoWithProof": [BL + "ExpandedBlockData::new_from_typed_data",
                                         BL + "ExtendedCommitInfoWithProof::try_from_raw",
                                         BL + "ExtendedCommitInfoWithProof::unchecked_from_parts"],
}


def run(prog, rep):
    rep.explanation = (
        "Constructor-discipline, must-dominate and sibling-agreement rules on astria-core's "
        "block types: checked types are only built in their listed constructors; every "
        "validating constructor returns Ok only behind the true edges of its Merkle-proof and "
        "root checks against the header's data hash; unchecked constructors are confined to the "
        "sequencer's storage read path; rollup maps are sorted before hashing; the two filter "
        "routines and the Celestia split copy each rollup's own id/data/proof. Value equality of "
        "served data for all blocks is not decided.")
    rep.assumptions += ["astria-merkle verification semantics (C08)", "production cfg only"]
    r1(prog, rep)
    r2(prog, rep)
    r3(prog, rep)
    r4(prog, rep)
    # R6: the conductor's reconstruction hands out a header only after the rollup blob was
    # verified against it, and an unverifiable blob does not consume the header (completeness:
    # a forged blob ahead of the genuine one must not suppress the block) - rules shared with C09
    import c09
    c09.q4(prog, rep, rule="R6")
    r5(prog, rep)


def bool_call_true_edges(body, rx, must_args=()):
    out = []
    for c in body.calls:
        if c.matches(rx):
            roots = " ".join(body.root(a) for a in c.args)
            if all(m in roots for m in must_args):
                be = bool_payload_edges(body, c)
                if be:
                    out.append((c, be[0]))
    return out


def r1(prog, rep):
    for t, allowed in CONSTRUCTORS.items():
        k1_constructors(prog, rep, "R1", "^" + re.escape(t) + "$", allowed + [clone_of(t)], floor=2)
    # unchecked constructors: only the sequencer's storage read path
    k1_callers(prog, rep, "R1", [], [re.compile(r"^astria_sequencer::grpc::(state_ext|storage)::"),
                                     re.compile(r"^astria_core::sequencerblock::v1::")], floor=3,
               rx=r"sequencerblock::v1::(block|celestia)::\w+::unchecked_from_parts$",
               what="unchecked_from_parts (block types)", ignore_owner=is_test_owner)
    # --- SequencerBlock::try_from_raw
    fn = BL + "SequencerBlock::try_from_raw"
    body = prog.main_body(fn)
    oks = result_blocks(body, "Ok")
    rep.floor("R1", len(oks), 1, "Ok(Self) in SequencerBlock::try_from_raw")
    vals = [
        ("rollup_transactions_root-in-data_hash",
         bool_call_true_edges(body, r"astria_merkle::audit::Proof::verify$",
                              ("rollup_transactions_root", "data_hash"))),
        ("rollup-txs-included",
         bool_call_true_edges(body, r"sequencerblock::v1::are_rollup_txs_included$", ("data_hash",))),
        ("rollup-ids-included",
         bool_call_true_edges(body, r"sequencerblock::v1::are_rollup_ids_included$", ("data_hash",))),
    ]
    for nm, found in vals:
        ok = bool(found) and all(body.must_pass_edges(set(found[0][1]), o) for o in oks)
        rep.check(ok, "R1", f"SequencerBlock::try_from_raw:Ok<={nm}",
                  f"a SequencerBlock can be decoded without `{nm}` having been verified",
                  found[0][0].where() if found else body.describe())
    for c, _ in vals[1][1]:
        a = [body.root(x) for x in c.args]
        rep.check("rollup_transactions" in a[0] and "rollup_transactions_proof" in a[1], "R1",
                  "try_from_raw:txs-included-operands", f"are_rollup_txs_included({[x[:40] for x in a]})",
                  c.where())
    for c, _ in vals[2][1]:
        a = [body.root(x) for x in c.args]
        rep.check("keys(" in a[0] and "rollup_transactions" in a[0] and "rollup_ids_proof" in a[1], "R1",
                  "try_from_raw:ids-included-operands", f"are_rollup_ids_included({[x[:40] for x in a]})",
                  c.where())
    # --- FilteredSequencerBlock::try_from_raw
    fn = BL + "FilteredSequencerBlock::try_from_raw"
    body = prog.main_body(fn)
    oks = result_blocks(body, "Ok")
    rep.floor("R1", len(oks), 1, "Ok(Self) in FilteredSequencerBlock::try_from_raw")
    checks = [
        ("rollup_transactions_root-in-data_hash", r"astria_merkle::audit::Proof::verify$",
         ("rollup_transactions_root",)),
        ("rollup-ids-included", r"sequencerblock::v1::are_rollup_ids_included$", ()),
    ]
    for nm, rx, must in checks:
        found = bool_call_true_edges(body, rx, must)
        ok = bool(found) and all(body.must_pass_edges(set(found[0][1]), o) for o in oks)
        rep.check(ok, "R1", f"FilteredSequencerBlock::try_from_raw:Ok<={nm}",
                  f"a FilteredSequencerBlock can be decoded without `{nm}`", body.describe())
    # every contained rollup's transactions must be proven against the rollup transactions root
    inner = [c for c in prog.calls_in(fn) if c.matches(r"do_rollup_transactions_match_root$|"
                                                      r"sequencerblock::v1::do_rollup_transaction_match_root$|"
                                                      r"astria_merkle::audit::Proof::verify$|Audit.*::perform$")]
    rep.floor("R1", len(inner), 2, "proof checks inside FilteredSequencerBlock::try_from_raw")
    # --- SubmittedMetadata::try_from_unchecked
    fn = CE + "SubmittedMetadata::try_from_unchecked"
    body = prog.main_body(fn)
    oks = result_blocks(body, "Ok")
    for nm, rx, must in (("rollup_transactions_root-in-data_hash", r"astria_merkle::audit::Proof::verify$",
                          ("rollup_transactions_root", "data_hash")),
                         ("rollup-ids-included", r"sequencerblock::v1::are_rollup_ids_included$",
                          ("rollup_ids", "data_hash"))):
        found = bool_call_true_edges(body, rx, must)
        ok = bool(found) and bool(oks) and all(body.must_pass_edges(set(found[0][1]), o) for o in oks)
        rep.check(ok, "R1", f"SubmittedMetadata::try_from_unchecked:Ok<={nm}",
                  f"Celestia metadata can be accepted without `{nm}`", body.describe())
    k1_callers(prog, rep, "R1", [CE + "SubmittedMetadata::try_from_unchecked"],
               [re.compile(r"^astria_core::sequencerblock::v1::celestia::")], floor=1,
               ignore_owner=is_test_owner)
    # --- try_build: both root comparisons guard Ok
    fn = BL + "SequencerBlockBuilder::try_build"
    body = prog.main_body(fn)
    oks = result_blocks(body, "Ok")
    rep.floor("R1", len(oks), 1, "Ok(SequencerBlock) in try_build")
    cm = [c for c in comparisons(body) if c.op == "Eq"]
    for nm, side in (("rollup_ids_root", r"rollup_ids_root"),
                     ("rollup_transactions_root", r"rollup_transactions_root")):
        cs = [c for c in cm if re.search(side + r"$", c.a) or re.search(side + r"$", c.b)]
        cs = [c for c in cs if "root(" in c.a + c.b]
        ok = bool(cs) and all(body.must_pass_edges(set(cs[0].true_edges), o) for o in oks)
        rep.check(ok, "R1", f"try_build:Ok<={nm}-matches",
                  f"try_build can return a block whose {nm} was not compared (equal) with the root "
                  f"reconstructed from the rollup data", body.describe())


def r1_every_served_entry_audited(prog, rep):
    """FilteredSequencerBlock::try_from_raw accepts a *subset* of the block's rollups: each served
    entry must be audited against the header's rollup-transactions root.  The audit loop has to
    range over the very map that is accepted (not over the committed id list: an entry for an id
    that is not in the list would never be audited) and every iteration has to pass the audit."""
    fn = BL + "FilteredSequencerBlock::try_from_raw"
    b = prog.main_body(fn)
    aud = [c for c in b.calls if short_name(c.callee) == "do_rollup_transactions_match_root"]
    rep.floor("R1", len(aud), 1, "per-rollup audit in FilteredSequencerBlock::try_from_raw")
    acc = ""
    for i, j, p_, rv, line in b.aggregates("adt", r"block::FilteredSequencerBlock$"):
        acc = dict(zip(rv[5], [b.root(o) for o in rv[4]])).get("rollup_transactions", "")
    loops = [(h, it) for h, it in for_loops(b)
             if any(a.bb in b.reachable(h.target or -1) for a in aud)]
    ok = bool(acc) and bool(loops) and all(
        it.split("|")[0] in (f"into_iter(values({acc}))", f"into_iter(iter({acc}))",
                             f"into_iter({acc})", f"into_iter(values({acc}~mut))") for h, it in loops)
    rep.check(ok, "R1", "filtered:audit-ranges-over-accepted-map",
              f"the per-rollup audit iterates `{[it[:80] for h, it in loops]}`, not the map of "
              f"served rollup transactions that is accepted (`{acc[:80]}`): an entry outside the "
              "iterated set is accepted unaudited", b.describe())
    for a in aud:
        be = bool_payload_edges(b, a)
        good = be is not None
        if good:
            for h, it in loops:
                for s_ in b.succ[h.bb]:
                    # from the loop body the head is not reachable again without the audit's
                    # true edge (and without an error exit)
                    e, bl = error_cut(b)
                    cut = set(e) | set(be[0])
                    oe = b.outcome_edges(h)
                    for (u, v) in (oe.get("ok") or []):
                        if h.bb in b.reachable(v, removed_edges=cut, removed_blocks=set(bl)):
                            good = False
        rep.check(good, "R1", "filtered:every-iteration-audited",
                  "an iteration of the audit loop can complete without the entry having passed "
                  "do_rollup_transactions_match_root (early `continue`)", a.where())


def sorted_before_tree(prog, rep, rule, fns):
    """In each of `fns` every Merkle tree derivation is dominated by a sort of the rollup map by
    key, and nothing is inserted into the map between that sort and the derivation (deposits of
    rollups without sequenced data are merged in after the grouping step)."""
    for fn in fns:
        body = prog.main_body(fn)
        srt = [c for c in body.calls if c.matches(r"indexmap::map::IndexMap::<.*>::sort_unstable_keys$")]
        trees = [c for c in body.calls if c.matches(r"astria_merkle::Tree::from_leaves$|"
                                                    r"derive_merkle_tree_from_rollup_txs$")]
        ins = [c for c in body.calls if not c.expn and c.target is not None and
               c.matches(r"indexmap::map::(IndexMap|core::entry::\w+|Entry)(::<.*>)?::"
                         r"(entry|insert|insert_full|extend|or_default|or_insert|or_insert_with)$")]
        rep.floor(rule, len(trees), 2, f"Merkle tree derivations in {short_name(fn)}")
        for t in trees:
            good = []
            for s_ in srt:
                if not body.must_pass_block(s_.bb, t.bb) or s_.target is None:
                    continue
                after_sort = body.reachable(s_.target)
                late = [i for i in ins if i.bb in after_sort and t.bb in body.reachable(i.target)]
                if not late:
                    good.append(s_)
            rep.check(bool(good), rule, f"{short_name(fn)}:sort<tree:{short_name(t.callee)}",
                      f"{fn}: `{short_name(t.callee)}` is derived from the rollup map before it is "
                      f"sorted by key, or entries are added after the last sort (commitments would "
                      f"depend on insertion / hash-map order)", t.where())


def r2(prog, rep):
    r1_every_served_entry_audited(prog, rep)
    sorted_before_tree(prog, rep, "R2", (
        BL + "SequencerBlockBuilder::try_build",
        "astria_sequencer::proposal::commitment::generate_rollup_datas_commitment"))
    body = prog.main_body(BL + "SequencerBlock::into_filtered_block")
    snap = [c for c in body.calls if c.matches(r"Iterator::collect$") and
            "keys(self.rollup_transactions)" in body.root(c.args[0])]
    rm = [c for c in body.calls if c.matches(r"IndexMap::<.*>::(shift_remove|swap_remove|remove)$")]
    rep.check(bool(snap) and bool(rm) and all(body.must_pass_block(snap[0].bb, r.bb) for r in rm),
              "R2", "into_filtered_block:ids-snapshot<remove",
              "into_filtered_block removes rollup entries before it has recorded the list of all "
              "rollup ids (the ids proof would no longer verify)", body.describe())


def r3(prog, rep):
    fields = {}
    for fn in ("into_filtered_block", "to_filtered_block"):
        body = prog.main_body(BL + "SequencerBlock::" + fn)
        ag = list(body.aggregates("adt", r"block::FilteredSequencerBlock$"))
        if len(ag) != 1:
            rep.fail("R3", f"{fn}:shape", f"{fn} no longer builds exactly one FilteredSequencerBlock",
                     body.describe())
            return
        rv = ag[0][3]
        fields[fn] = dict(zip(rv[5], [body.root(o) for o in rv[4]]))
        # rollups are looked up by the requested id in self.rollup_transactions
        lk = [c for c in body.calls if c.matches(r"IndexMap::<.*>::(shift_remove|get)$")]
        ok = bool(lk) and body.root(lk[0].args[0]) == "self.rollup_transactions" and \
            "rollup_ids" in body.root(lk[0].args[1])
        rep.check(ok, "R3", f"{fn}:lookup-by-requested-id",
                  f"{fn} does not look the requested ids up in the block's rollup map", body.describe())
        ins = [c for c in body.calls if c.matches(r"IndexMap::<.*>::insert$")]
        ok = bool(ins) and body.root(ins[0].args[1]) == body.root(lk[0].args[1]) if lk else False
        rep.check(ok, "R3", f"{fn}:stored-under-same-id",
                  f"{fn} stores a rollup's data under a different id than it was looked up with",
                  body.describe())
    a, b = fields["into_filtered_block"], fields["to_filtered_block"]
    for k in sorted(set(a) | set(b)):
        if k == "rollup_transactions":
            continue
        rep.check(a.get(k) == b.get(k) and (k == "all_rollup_ids" or a.get(k) == f"self.{k}"), "R3",
                  f"siblings-agree:{k}",
                  f"into_filtered_block sets {k}={a.get(k)} but to_filtered_block sets {k}={b.get(k)}",
                  BL + "SequencerBlock::to_filtered_block")
    rep.check("keys(self.rollup_transactions)" in a.get("all_rollup_ids", ""), "R3", "all_rollup_ids=keys",
              f"all_rollup_ids = {a.get('all_rollup_ids')}", BL + "SequencerBlock::into_filtered_block")


def r4(prog, rep):
    body = prog.main_body(CE + "PreparedBlock::from_sequencer_block")
    md = list(body.aggregates("adt", r"celestia::SubmittedMetadata$"))
    rd = list(body.aggregates("adt", r"celestia::SubmittedRollupData$"))
    rep.floor("R4", len(md) + len(rd), 2, "aggregates in from_sequencer_block")
    for i, j, p, rv, line in md:
        f = dict(zip(rv[5], [body.root(o) for o in rv[4]]))
        parts = "into_parts(block)"
        ok = f.get("rollup_ids", "").startswith("collect(copied(keys(" + parts + ".rollup_transactions") \
            and f.get("block_hash") == parts + ".block_hash" and f.get("header") == parts + ".header" \
            and f.get("rollup_transactions_proof") == parts + ".rollup_transactions_proof" \
            and f.get("rollup_ids_proof") == parts + ".rollup_ids_proof"
        rep.check(ok, "R4", "split:metadata-fields",
                  f"Celestia metadata is not a field-wise copy of the block with rollup_ids = keys: "
                  f"{dict((k, v[:50]) for k, v in f.items())}", f"{body.file}:{line}")
    for i, j, p, rv, line in rd:
        f = dict(zip(rv[5], [body.root(o) for o in rv[4]]))
        item = r"next\(into_iter\(into_parts\(block\)\.rollup_transactions\)\)<Some>\.0"
        ok = re.fullmatch(item + r"\.0", f.get("rollup_id", "")) is not None and \
            re.search(r"into_parts\(" + item + r"\.1\)\.transactions", f.get("transactions", "")) is not None \
            and re.search(r"into_parts\(" + item + r"\.1\)\.proof$", f.get("proof", "")) is not None \
            and f.get("sequencer_block_hash") == "into_parts(block).block_hash"
        rep.check(ok, "R4", "split:rollup-fields",
                  f"a rollup's Celestia entry does not carry its own id/transactions/proof and the "
                  f"block's hash: {dict((k, v[:60]) for k, v in f.items())}", f"{body.file}:{line}")
    k1_callers(prog, rep, "R4", [BL + "SequencerBlock::split_for_celestia"],
               [re.compile(r"^astria_sequencer_relayer::relayer::write::conversion::")], floor=1,
               ignore_owner=is_test_owner)


# ----------------------------------------------------------------------------------------------
# R5 (strengthened after seed C07a): binary search only over a sequence that was sorted first

def capture_root(prog, child, place):
    """Resolve a captured variable used in closure `child` to its root in the creating body.
    Returns (parent_body, root, creation_bb) or None."""
    parts = [x for x in place.split("|") if x != "*"]
    if parts[0] != "1" or len(parts) < 2 or not parts[1].startswith("."):
        return None
    try:
        idx = int(parts[1][1:])
    except ValueError:
        return None
    for parent in prog.bodies_of(child.owner):
        for i, j, p, rv, line in parent.aggregates("closure"):
            if rv[2] == child.name and idx < len(rv[4]):
                return parent, parent.root(rv[4][idx]), i
    return None


def r5(prog, rep):
    n = 0
    for b in prog.bodies:
        if is_test_owner(b.owner) or not b.owner.startswith(("astria_sequencer::", "<astria_sequencer::",
                                                              "astria_core::", "astria_conductor::",
                                                              "astria_sequencer_relayer::")):
            continue
        for c in b.calls:
            if not c.matches(r"core::slice::<impl \[T\]>::binary_search(_by|_by_key)?$"):
                continue
            n += 1
            recv = c.args[0]
            body, root, site = b, b.root(recv), c.bb
            # receiver is a captured variable of a closure: resolve in the creating body
            place = recv[1] if recv[0] in "cm" else None
            src = None
            if place is not None:
                # follow refs/derefs to the upvar place
                l = int(place.split("|")[0])
                ds = b.defs.get(l, [])
                cand = place
                for _ in range(6):
                    if cand.split("|")[0] == "1" and "|" in cand:
                        break
                    ds = b.defs.get(int(cand.split("|")[0]), [])
                    if len(ds) == 1 and ds[0][0] == "stmt" and ds[0][4][0] in ("ref", "use"):
                        rv = ds[0][4]
                        cand = rv[2] if rv[0] == "ref" else (rv[1][1] if rv[1][0] in "cm" else cand)
                    elif len(ds) == 1 and ds[0][0] == "call" and ds[0][2].args:
                        a0 = ds[0][2].args[0]
                        cand = a0[1] if a0[0] in "cm" else cand
                    else:
                        break
                src = capture_root(prog, b, cand)
            if src is not None:
                body, root, site = src
            sorts = [s for s in body.calls if s.matches(r"core::slice::<impl \[T\]>::sort(_unstable)?(_by|_by_key)?$")
                     and body.root(s.args[0]) == root]
            ok = bool(sorts) and any(body.must_pass_block(s.bb, site) for s in sorts)
            rep.check(ok, "R5", f"binary_search<=sorted:{short_name(b.owner)}",
                      f"{b.owner}: binary_search over `{root[:70]}`, which is not sorted on every "
                      f"path before the search (a search over unsorted data misses entries: "
                      f"requested rollups with data would be silently omitted)", c.where(),
                      detail=f"sorted at L{sorts[0].line}" if sorts else "")
            if "get_filtered_sequencer_block" in b.owner:
                rep.check("get_rollup_ids_by_block_hash(" in root, "R5", "filter-against-block-ids",
                          f"requested rollup ids are filtered against `{root[:70]}`, not against the "
                          f"block's own rollup ids", c.where())
    rep.floor("R5", n, 1, "binary_search call sites")
    # the served list of all rollup ids is the block's stored list
    o = "<astria_sequencer::grpc::sequencer::SequencerServer as astria_core::generated::astria::sequencerblock::v1::sequencer_service_server::SequencerService>::get_filtered_sequencer_block"
    if o in prog.by_owner:
        body = prog.main_body(o)
        for i, j, p, rv, line in body.aggregates("adt", r"sequencerblock::v1::FilteredSequencerBlock$"):
            f = dict(zip(rv[5], [body.root(x) for x in rv[4]]))
            rep.check("get_rollup_ids_by_block_hash(" in f.get("all_rollup_ids", ""), "R5",
                      "served-all_rollup_ids=stored", f"all_rollup_ids served from {f.get('all_rollup_ids', '')[:70]}",
                      f"{body.file}:{line}")
            rep.check("get_rollup_data(" in f.get("rollup_transactions", "") or
                      "with_capacity(" in f.get("rollup_transactions", ""), "R5",
                      "served-rollup-data=stored", f"rollup data served from {f.get('rollup_transactions', '')[:70]}",
                      f"{body.file}:{line}")
    else:
        rep.anchor_missing("R5", o)

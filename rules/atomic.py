"""K6b effect order in a region: can a function fail (semantically) after it has written?

A *write* is a call to a raw cnidarium StateWrite method, to an external writer, or to a
workspace function whose transitive summary says "may write".  A *failure site* is an error
exit that does not originate in the storage layer: `ensure!`/`bail!`, `?` on anything that is
not a plain storage getter/putter (arithmetic `checked_*..ok_or`, parsing, balance updates,
calls to other fallible workspace functions).  `pairs(F)` lists (write site, failure site)
such that the failure is reachable after the write; a callee that itself may fail after
writing contributes a pair at its call site.
"""
import re

from facts import ADAPTERS, TRY_BRANCH, FROM_RESIDUAL, short_name, place_local

RAW_WRITE = re.compile(
    r"cnidarium::write::StateWrite::(put_raw|delete|nonverifiable_put_raw|nonverifiable_delete|"
    r"object_put|object_delete|object_merge|record)$")
EXT_WRITE = re.compile(r"penumbra_sdk_ibc::.*(execute|Write::|::put_|send_packet)")
# storage-layer (environment) faults: not counted as semantic failures
ENV_RX = re.compile(
    r"::StateReadExt::|::StateWriteExt::put_|cnidarium::|::storage::|StoredValue|"
    r"::state_ext::State(Read|Write)Ext::(ephemeral_|cache_|clear_)")


class Atomic:
    def __init__(self, prog, is_test_owner=None):
        self.prog = prog
        self.W = self._writers()
        self._wf = {}
        self.is_test_owner = is_test_owner or (lambda o: False)

    def _writers(self):
        prog = self.prog
        W = set()
        for b in prog.bodies:
            for c in b.calls:
                if any(RAW_WRITE.search(n) or EXT_WRITE.search(n) for n in c.names()):
                    W.add(b.owner)
                    break
        g = prog.callgraph
        changed = True
        while changed:
            changed = False
            for o, ts in g.items():
                if o not in W and (ts & W):
                    W.add(o)
                    changed = True
        return W

    def is_write_call(self, c):
        if any(RAW_WRITE.search(n) or EXT_WRITE.search(n) for n in c.names()):
            return True
        tg = self.prog.resolve_targets(c)
        return any(t in self.W and t != c.body.owner for t in tg)

    def fail_sites(self, body):
        """[(bb_of_failure_edge_source, label, line)]"""
        out = []
        seen_blocks = set()
        for c in body.calls:
            if c.is_(*ADAPTERS) or c.is_(TRY_BRANCH) or c.is_(FROM_RESIDUAL):
                continue
            if c.expn and any(m in ("ensure", "bail") for m in c.macros):
                # the error-construction call inside ensure!/bail!
                if c.matches(r"eyre::private::|eyre::Report|anyhow::") and c.bb not in seen_blocks:
                    msg = ""
                    for a in c.args:
                        r = body.root(a)
                        m = re.search(r'const\("?b?\\?"?([^"]{0,50})', r)
                        if m:
                            msg = m.group(1)
                            break
                    out.append((c.bb, f"{[m for m in c.macros if m in ('ensure', 'bail')][0]}!({msg})", c.line))
                    seen_blocks.add(c.bb)
                continue
            if c.expn:
                continue        # await/`?` plumbing and macro internals are not user calls
            oe = body.outcome_edges(c)
            if oe["kind"] != "try":
                continue
            if any(ENV_RX.search(n) for n in c.names()):
                # storage getter; but a following ok_or* on its Option payload is semantic and is
                # found as its own site (the Option adapter chain has its own Try::branch)
                continue
            out.append((c.bb, f"{short_name(c.callee)}?", c.line))
        return out

    def pairs(self, owner, depth=0):
        """(write label, fail label, where) triples for `owner` (memoised)."""
        if owner in self._wf:
            return self._wf[owner]
        self._wf[owner] = []          # recursion guard
        prog = self.prog
        if owner not in prog.by_owner or depth > 12:
            return []
        body = prog.main_body(owner)
        res = []
        writes = []
        for c in body.calls:
            if c.is_(*ADAPTERS) or c.is_(TRY_BRANCH):
                continue
            if self.is_write_call(c):
                writes.append(c)
                # a callee that may fail after writing: pair at this call site (if its error is
                # propagated here, i.e. it can make *this* function fail)
                for t in prog.resolve_targets(c):
                    if t != owner and t in prog.by_owner:
                        sub = self.pairs(t, depth + 1)
                        if sub:
                            w, f, wh = sub[0]
                            res.append((f"{short_name(t)}>{w}", f"{short_name(t)}>{f}", c.where()))
        fails = self.fail_sites(body)
        for w in writes:
            if w.target is None:
                continue
            oe = body.outcome_edges(w)
            starts = [v for (u, v) in oe["ok"]] if oe["kind"] == "try" else [w.target]
            reach = set()
            for s in starts:
                reach |= body.reachable(s)
            for (fb, label, line) in fails:
                if fb in reach and fb != w.bb:
                    res.append((short_name(w.callee), label, f"{body.file}:{line}"))
        # de-duplicate
        seen = set()
        out = []
        for t in res:
            if (t[0], t[1]) not in seen:
                seen.add((t[0], t[1]))
                out.append(t)
        self._wf[owner] = out
        return out


def runs_on_private_delta(body, call, arg_index=0):
    """The catch site passes a `StateDelta::new(..)` created in this body to the region and
    `apply` is reachable only from the region's success edge."""
    r = body.root(call.args[arg_index])
    if "StateDelta" not in r and "try_begin_transaction" not in r and "new(" not in r:
        return False, f"region runs on `{r[:60]}`"
    mk = [c for c in body.calls if c.matches(r"cnidarium::delta::StateDelta::<S>::new$|"
                                             r"try_begin_transaction$")]
    if not mk:
        return False, "no private StateDelta is created"
    ap = [c for c in body.calls if c.matches(r"cnidarium::delta::StateDelta::<S>::apply$")]
    if not ap:
        return False, "the private delta is never applied"
    oe = body.outcome_edges(call)
    if not oe["ok"]:
        return False, "region result does not steer control flow"
    for a in ap:
        if not body.must_pass_edges(set(oe["ok"]), a.bb):
            return False, "apply is reachable from the failure edge"
    return True, "private delta applied only on success"

#!/bin/bash
# Build the fact driver and prime the nightly dependency cache (cold: ~10 min, warm: seconds).
set -euo pipefail
cd "$(dirname "$0")"
(cd driver && CARGO_NET_OFFLINE=true cargo build --release --offline)
exec ./check --prime

#!/bin/bash
# tools/verify_seed.sh <seed dir> : confirm a seeded change in a scratch worktree of /repo HEAD.
#  (a) change only: the touched crates' existing tests pass
#  (b) change + demo: only the demo test(s) fail
#  (c) demo only: everything passes
# Writes <seed dir>/verify.log and prints a one-line verdict.  The worktree (/tmp/wt-verify) and its
# target dir are reused between seeds and must be removed by the caller when done.
set -u
seed=$(realpath "$1"); name=$(basename "$seed")
wt=/tmp/wt-verify
if [ ! -d $wt ]; then git -C /repo worktree add --detach $wt HEAD >/dev/null 2>&1 || exit 2; fi
cd $wt && git checkout -q --detach $(git -C /repo rev-parse HEAD) && git reset -q --hard && git clean -fdq crates
export CARGO_TARGET_DIR=/tmp/wt-verify-target CARGO_NET_OFFLINE=true
crates=$(grep -h '^+++ b/crates/' "$seed/patch.diff" "$seed/demo.diff" | sed 's|+++ b/crates/\([^/]*\)/.*|\1|' | sort -u)
pk=""; for c in $crates; do pk="$pk -p $c"; done
log="$seed/verify.log"; : > "$log"
run() { # label
  echo "=== $1 ($(git -C $wt rev-parse --short HEAD)) crates:$crates" >> "$log"
  cargo nextest run --offline $pk -j 10 --no-fail-fast > /tmp/wt-verify-run.log 2>&1
  rc=$?
  grep -E "(FAIL|SIGABRT|SIGSEGV|TIMEOUT) \[|Summary|error(\[|:)" /tmp/wt-verify-run.log | sort -u >> "$log"
  echo "rc=$rc" >> "$log"
  return $rc
}
failed_tests() { sed "s,\x1b\[[0-9;]*m,,g" /tmp/wt-verify-run.log | grep -aE "(FAIL|SIGABRT|SIGSEGV|TIMEOUT) \[" | sed "s/.*\] *//" | sort -u; }
git apply "$seed/patch.diff" || { echo "$name: PATCH DOES NOT APPLY"; exit 1; }
run "a: change only"; a_rc=$?; a_fail=$(failed_tests | tr '\n' ' ')
git apply "$seed/demo.diff" || { echo "$name: DEMO DOES NOT APPLY on patch"; exit 1; }
run "b: change + demo"; b_rc=$?; b_fail=$(failed_tests | tr '\n' ' ')
git reset -q --hard; git clean -fdq crates; git apply "$seed/demo.diff"
run "c: demo only"; c_rc=$?; c_fail=$(failed_tests | tr '\n' ' ')
git reset -q --hard; git clean -fdq crates
verdict=REJECT
b_nfail=$(awk '/^=== b:/{f=1} /^=== c:/{f=0} f && /Summary/' "$log" | grep -o '[0-9]* failed' | head -1)
if [ $a_rc -eq 0 ] && [ $c_rc -eq 0 ] && [ $b_rc -ne 0 ] && { [ -n "$b_fail" ] || [ -n "$b_nfail" ]; }; then verdict=CONFIRMED; fi
echo "$name: $verdict  a_rc=$a_rc [$a_fail] b_rc=$b_rc [$b_fail$b_nfail] c_rc=$c_rc [$c_fail]" | tee -a "$log"

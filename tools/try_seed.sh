#!/bin/bash
# tools/try_seed.sh <patch.diff> <property id>...   apply a seeded change to /repo, run checks, revert.
set -u
patch=$1; shift
cd /repo || exit 2
if ! git diff --quiet; then echo "/repo has uncommitted changes; refusing"; exit 2; fi
git apply "$patch" || { echo "patch does not apply"; exit 2; }
trap 'git -C /repo checkout -- . ; git -C /repo clean -fdq crates 2>/dev/null' EXIT
cd /verif
for id in "$@"; do
  echo "=== $id"
  ./check "$id" 2>&1 | grep -E "^(  rule|VIOLATION|OK|KNOWN|\[facts\] FATAL)" | cut -c1-400
done

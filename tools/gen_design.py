#!/usr/bin/env python3
"""Assemble /verif/DESIGN.md from hand-written parts (tools/design/*.md), the rule modules'
docstrings (section 4) and the measured self-test / seed tables (section 7)."""
import glob
import json
import os
import re

V = os.path.dirname(os.path.dirname(os.path.abspath(__file__)))
D = os.path.join(V, "tools", "design")


def part(name):
    return open(os.path.join(D, name)).read().rstrip() + "\n"


def per_property():
    out = ["## 4. Per-property rules (as implemented; one module per property under rules/)\n",
           "The text below is the head comment of each rule module; the tables of rule *instances* "
           "(anchor functions, getters, allow-lists, floors, triage reasons) live in the modules "
           "themselves.  \"Floor\" obligations fail closed when an anchor disappears.\n"]
    for f in sorted(glob.glob(os.path.join(V, "rules", "c[0-9][0-9].py"))):
        m = re.match(r'"""(.*?)"""', open(f).read(), re.S)
        pid = os.path.basename(f)[:3].upper()
        out.append(f"### {pid}\n\n```\n{m.group(1).strip()}\n```\n")
    return "\n".join(out)


def selftest_table():
    rows = []
    for f in sorted(glob.glob(os.path.join(V, "evidence", "C*.json"))):
        e = json.load(open(f))
        st = e["coverage"].get("selftest")
        if not st:
            continue
        for m in st.get("mutants", []):
            rows.append((e["property_id"], m["kind"], m["name"].replace(".patch", ""), m.get("expect") or "",
                         m["result"], ", ".join(k.split("|")[0] + "|" + k.split("|")[1][:40] if "|" in k else k
                                                for k in (m.get("violations") or [])[:2])))
        for m in st.get("refactors", []):
            rows.append((e["property_id"], "refactor", m["name"].replace(".patch", ""), "(silent)", m["result"], ""))
    if not rows:
        return "(no thorough-tier evidence present yet; run `./check <id> --tier thorough`)\n"
    out = ["| property | kind | change | expected rule | result | first violation keys |",
           "|---|---|---|---|---|---|"]
    for r in rows:
        out.append("| " + " | ".join(x.replace("|", "\\|") for x in r) + " |")
    return "\n".join(out) + "\n"


def seeds_table():
    rows = []
    for d in sorted(glob.glob(os.path.join(V, "seeded", "C*"))):
        mp = os.path.join(d, "meta.json")
        if not os.path.exists(mp):
            continue
        m = json.load(open(mp))
        rows.append((os.path.basename(d), m.get("property", ""), (m.get("summary", "") or "")[:160].replace("\n", " "),
                     m.get("caught_by", ""), m.get("first_run", "")))
    if not rows:
        return "(seeded changes are being confirmed)\n"
    first = sum(1 for r in rows if r[4] is True)
    out = [f"{len(rows)} confirmed seeds (each re-confirmed here: existing tests green with the "
           f"change, only the demonstration fails, demonstration green without it): {first} were "
           f"reported by the property's own check the first time it was run against them, "
           f"{len(rows) - first} were first missed (or reported only under a neighbouring "
           "property) and led to the rule named in the table; all are now part of the thorough "
           "tier.  `seeded/_neutralised/` holds one seed whose change stopped being a violation "
           "after a `fix:` commit.", "",
           "| seed | property | change | caught by | on first run? |", "|---|---|---|---|---|"]
    for r in rows:
        out.append("| " + " | ".join(str(x).replace("|", "\\|") for x in r) + " |")
    return "\n".join(out) + "\n"


def selftest_part():
    """07-selftest.md with the measured tables (7.1, 7.2) inserted before section 7.3"""
    t = part("07-selftest.md")
    tables = "### 7.1 Measured self-test results (from the thorough-tier evidence files)\n\n" + \
        selftest_table() + "\n### 7.2 Independently seeded changes\n\n" + seeds_table() + "\n"
    i = t.index("### 7.3")
    return t[:i] + tables + t[i:]


def main():
    text = part("00-head.md") + "\n" + part("01-why.md") + "\n" + part("02-machinery.md") + "\n" + \
        part("03-kinds.md") + "\n" + per_property() + "\n" + part("05-defects.md") + "\n" + \
        part("06-protocol.md") + "\n" + selftest_part() + "\n" + \
        part("08-limits.md")
    open(os.path.join(V, "DESIGN.md"), "w").write(text)
    print(len(text.splitlines()), "lines")


if __name__ == "__main__":
    main()

#!/usr/bin/env python3
"""Print the prompt given to an independent sub-agent that seeds a property-breaking change.
Only the property text is included - nothing about /verif's checks."""
import json, sys
pid = sys.argv[1]
tag = sys.argv[2] if len(sys.argv) > 2 else "a"
extra = sys.argv[3] if len(sys.argv) > 3 else ""
p = next(json.loads(l) for l in open('/verif/properties.jsonl') if json.loads(l)['id'] == pid)
wt = f"/tmp/wt-{pid}{tag}"
out = f"/tmp/seed-{pid}{tag}"
EXTRA_RULES = "Never use `git stash` (shared between worktrees); produce diffs with `git diff -- <paths>`."
print(f"""You are helping test a verification framework for the Rust monorepo astriaorg/astria (checked out at /repo, pinned commit, builds offline with the default toolchain; NO network access, always pass --offline to cargo).

Your job: produce ONE realistic source change to astriaorg/astria that BREAKS the following semantic property while the code still compiles and the existing test suite still passes, plus a demonstration that fails with your change and passes without it.

PROPERTY {p['id']}: {p['title']}
Statement: {p['statement']}
Quantified over: {p['quantifier']['text']}
Code the property is anchored in (start reading here): {', '.join(p['anchors'].get('files', []))}

Requirements for the change:
- It must need something SPECIFIC to manifest: a particular interleaving, a crash or fault at a particular point, a multi-step sequence of operations, an unusual input (boundary values, a rare combination of action types, a particular recipient kind), or two cooperating sites that each look fine alone. NOT something ordinary use or any existing test would expose at once.
- It must look like a plausible maintenance edit (a refactor gone slightly wrong, an "optimisation", a reordering, a relaxed/moved check, a copy-paste slip, wrong variable of the right type), not sabotage with an obviously silly body. Keep it small (typically 1-15 changed lines, possibly across two sites). Do not touch tests, do not add cfg flags, do not change public wire formats or snapshot-tested constants.
- It must compile, and the existing tests of every crate you touched (and of crates depending on the changed code where that is cheap) must still pass.
{extra}
How to work:
1. Create your own scratch git worktree (never edit /repo itself):  git -C /repo worktree add --detach {wt} HEAD
   To avoid a cold build, seed the build cache first:  cp -a /repo/target {wt}/target   (about 11 GB, registry dependencies are then reused; workspace crates rebuild).
   Work only inside {wt}. Build/test with e.g.  cd {wt} && cargo test --offline -p <crate> [test filter]   (crates: astria-sequencer, astria-core, astria-merkle, astria-conductor, astria-sequencer-relayer, astria-composer). Use at most 5 parallel jobs (-j 5) - the machine is shared. `cargo nextest run --offline -p <crate>` is available and is what the project's baseline uses; note that under plain `cargo test` three astria-sequencer tests (app::tests_app::app_*_failed_ibc_relay_included_in_block) fail on the UNCHANGED code when the whole lib suite runs in one process - ignore those or use nextest.
2. Read the anchored code, choose the change, make it.
3. Write the demonstration as a NEW test (a #[test]/#[tokio::test] function added to an existing test module or a new tests file, or a small example program) that exercises the real code: it must FAIL (assert/panic) with your change applied and PASS on the unchanged code. Put the demonstration in its own patch, separate from the breaking change.
4. Verify all three facts yourself and record the exact commands: (a) with the change, the touched crates' existing tests pass; (b) with change + demo, the demo fails; (c) with only the demo (change reverted), the demo passes.
5. Deliver into the directory {out}/ (create it):
   - patch.diff : the breaking change only (output of `git diff` for the non-test source edits; must apply with `git apply` at the root of a clean checkout)
   - demo.diff  : the demonstration only (applies on a clean checkout, with or without patch.diff)
   - meta.json  : {{"property": "{p['id']}", "summary": "<what was changed, one or two sentences>", "needs_to_manifest": "<the specific input/sequence/interleaving/fault needed>", "files_changed": [...], "demo_test": "<crate and test name / how to run>", "commands_run": ["..."], "results": {{"existing_tests_with_change": "...", "demo_with_change": "fails: ...", "demo_without_change": "passes"}}}}
6. Do NOT remove the worktree yourself (the caller inspects it and cleans up), but do delete its target/ directory when you are completely finished to free disk space. Do not write anything under /repo or /verif, and do not read anything under /verif.

Report back (briefly): the change, why it breaks the property, what is needed to manifest it, and the verification results. If after a serious attempt you cannot produce a change that both breaks the property and keeps the existing tests green, say so and explain what you tried.""")

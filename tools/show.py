#!/usr/bin/env python3
"""Debug helper: pretty-print bodies whose name matches a regex.  tools/show.py <crate.target> <regex> [-s]"""
import sys, re
sys.path.insert(0, '/verif/rules')
from facts import *
tgt, rx = sys.argv[1], sys.argv[2]
stm = '-s' in sys.argv
allb = '-a' in sys.argv
p = Program([tgt])
for b in p.bodies:
    if not re.search(rx, b.name): continue
    print('=====', b.name, f'{b.file}:{b.line}', 'argc', b.argc, 'blocks', len(b.blocks))
    print('  dbg', b.dbg)
    live = b.live_blocks()
    for i, blk in enumerate(b.blocks):
        if i not in live: continue
        t = blk['t']
        if stm:
            for s in blk['s']:
                print(f'   bb{i}   ', s)
        if t[0] == 'call':
            c = Call(b, i, t)
            if not allb and c.expn and not any('desugar' in m or m in('ensure','bail','ensure!','eyre::ensure') for m in c.macros) and any(m in ('instrument','tracing::event','$crate::event') for m in c.macros): continue
            print(f'  bb{i} CALL {c.callee}  args={[b.root(a) for a in c.args]} -> _{c.dest} bb{c.target} L{c.line} {c.macros[:3]}')
        elif t[0] in ('switch',):
            print(f'  bb{i} SWITCH {b.root(t[1])} {t[2]} else {t[3]} L{t[4]}')
        elif t[0] in ('ret','assert','yield','unreachable'):
            print(f'  bb{i} {t}')
        elif allb:
            print(f'  bb{i} {t}')

#!/bin/bash
# tools/scratch_check.sh <patch> <pid>... : run the quick checks against a scratch copy of /repo's
# current tree with <patch> applied (never touches /repo or /verif/evidence).  Developer aid for
# trying seeds/mutants while other jobs run; the scratch copy is removed afterwards.
set -u
patch=$(realpath "$1"); shift
S=${VERIF_SCRATCH:-/var/tmp/astria-verif-try-$$}
mkdir -p $S/facts $S/evidence
rsync -a --delete --exclude /target --exclude /.git /repo/ $S/repo/
cp /verif/.cache/facts/*.jsonl /verif/.cache/facts/*.jsonl.stamp $S/facts/ 2>/dev/null
(cd $S/repo && patch -p1 -s -f -i "$patch") || { echo "patch does not apply"; rm -rf $S; exit 2; }
cd /verif
for pid in "$@"; do
  ASTRIA_REPO=$S/repo ASTRIA_FACTS_DIR=$S/facts VERIF_EVIDENCE_DIR=$S/evidence ./check $pid 2>&1 \
    | grep -E "^OK|^VIOLATION|^KNOWN|FATAL|error(\[|:)|Traceback" | awk '/^VIOLATION/{n++; if(n>2) next} {print}' 
  ls $S/evidence/replay/$pid-*.json 2>/dev/null | wc -l | sed 's/^/    violations: /'
  for r in $(ls $S/evidence/replay/$pid-*.json 2>/dev/null | head -4); do [ -f "$r" ] && python3 -c "
import json,sys
v=json.load(open(sys.argv[1])); print('   ', v.get('key'), '::', (v.get('what') or '')[:220], '@', v.get('where'))" "$r"; done
  rm -f $S/evidence/replay/$pid-*.json
done
rm -rf $S

#!/usr/bin/env python3
"""Regenerate MANIFEST.json from the table below (one check per claimed property)."""
import json, os
V = os.path.dirname(os.path.dirname(os.path.abspath(__file__)))
props = [json.loads(l) for l in open(os.path.join(V, 'properties.jsonl'))]
CLAIMS = {
 "C01": ("who-may-write inventory + checked-arithmetic lint + conservation templates with operand provenance (MIR dataflow)",
         "Decides the code-shape preconditions of conservation: single writers of balance/escrow/fee storage, checked_* arithmetic on every ledger quantity, each value-moving body matches MOVE/FEE-IN/FEE-OUT/IBC-OUT with equal asset+amount operands, fee formula shape, all 18 action arms pay before executing. Does not evaluate the global sum over histories.", "4/C01"),
 "C02": ("must-dominate (guard-before-write) + operand provenance of authority comparisons (MIR CFG analysis) + compile-fail witness for Transaction construction",
         "Decides that every state write of every checked action lies behind its own mutable check, that each check has signer == matching authority getter (keyed by the action's own bridge address) on every success path, that debits come from the signer or the withdrawer-guarded bridge address, and a frozen caller set for privileged putters. Reads of current state at execution time are what protect against former authorities; histories are not enumerated.", "4/C02"),
 "C03": ("must-dominate nonce guard + catch-site inventory + object-store immutability lint (MIR CFG + call graph)",
         "Decides nonce equality before every write, checked +1 increment on every success path, that every swallowed failure of a state-writing function is reviewed and the transaction-level ones run on a private delta applied only on success, and that ephemeral store values carry no interior mutability. Not replay-freedom over histories.", "4/C03"),
 "C04": ("pairing + operand provenance of deposit/credit and lookup/record sites; atomic-region effect-order analysis",
         "Decides that deposit emission sites are tied to an equal credit, event and cached deposit come from one value, withdrawal-event lookup and record share operands/key constructor and the record is on every success path, and failure atomicity of the swallowed receive region. Not the solvency inequality.", "4/C04"),
 "C08": ("panic reachability over the resolved call graph + domain-separation/operand-order rules + canonical closed-form comparison of the tree index helpers + constructor discipline with compile-fail typestate witnesses",
         "Decides totality (no reachable panic construct from proof decoding/verification given invariants that try_into_proof must establish), 0x00/0x01 prefixes and left/right order, who may construct a Proof. RFC 6962 equality and proof soundness for all sizes are not decided.", "4/C08"),
 "C09": ("accept-only-after / must-dominate rules, arithmetic-shape and canonical-formula lint (3*committed > 2*total), exhaustive-loop rule, panic reachability (MIR CFG + call graph), compile-fail witness",
         "Decides that verified metadata is only returned on the success edges of the chain-id/hash comparisons and quorum check, quorum arithmetic has no divide-before-multiply/saturation, the tally is behind signature, membership, address, commit-variant and first-occurrence guards, rollup data attached only behind proof + own rollup id, and blob decoding cannot reach a panic. The numeric >2/3 predicate is decided only through its arithmetic shape.", "4/C09"),
 "C13": ("pairing of tracked-set removals with removal-cache reports; must-dominate admission checks; exhaustive re-homing loops; who-may-mutate inventory",
         "Decides that no id leaves the tracked set without a removal reason, the per-account insert lies behind all five preconditions, container maps are mutated only by container methods, promotion uses balances net of pending costs. Invariants over operation sequences are not decided.", "4/C13"),
 "C14": ("pairing of validator entry writes with count updates; who-may-write inventory; read-then-clear ordering",
         "Decides count/entry pairing with operand provenance, removal guards on all success paths, frozen writer set, end_block returns what it read before clearing. The mirror over histories and per-batch applicability are not decided.", "4/C14"),
 "C15": ("canonical-formula threshold lint + must-dominate and per-iteration must-pass rules on vote-extension validation (MIR CFG)",
         "Decides threshold total*2/3+1 with checked ops, duplicate-voter guard before tallies, tallied commit votes followed by signature verification over the canonical message, success paths of validate_proposal, execution only behind it. Median-in-range is numeric and not decided.", "4/C15"),
 "C17": ("panic reachability from all decoder entry points over the resolved call graph (drop glue included) + constructor discipline with compile-fail witnesses",
         "Decides that no panic construct in workspace code is reachable from any network-facing decoder unless mechanically discharged or triaged with a reason, and that Proof/Transaction values are only built behind their validations. Re-encode equivalence is not decided.", "4/C17"),
 "C18": ("symbolic truth-table evaluation of zone predicates by CFG path enumeration; operand provenance; atomic-region effect-order analysis",
         "Decides checked escrow arithmetic, exact agreement of the three source-zone predicates (finite boolean domain, exhaustive), matching channel/asset/amount operands on the matching branches, and failure atomicity of the swallowed receive region. The accounting identity over histories is not decided.", "4/C18"),
 "C05": ("must-dominate state-reset rule (writers and readers of the inter-block state) with correlated-flag handling; phase-order agreement from write key-set intersection (call graph); hash-iteration/clock inventory",
         "Decides that every executing ABCI path resets to the committed snapshot before any state-writing phase, that phases with intersecting write key-sets have one relative order on cached and finalize-only paths (one open finding: oracle prices vs transactions), that hash-order iteration and clocks on the consensus path are triaged (sort-before-hash checked), exhaustive ExecutionState matches, cached results only read on the matched path. Equality of app hashes as values is not decided.", "4/C05"),
 "C06": ("sibling-agreement + must-dominate rules on proposal handlers; counter-update pairing",
         "Decides one shared per-transaction check routine, acceptance only behind both commitment equalities and decode/signature/execution/upgrade-hash success, executed list grows only behind all admission checks, failed checks of the Process variant always reject, byte counters updated after every inclusion and only assigned behind <= max. Liveness over all mempool contents is not decided.", "4/C06"),
 "C07": ("constructor discipline (who-may-construct, compile-fail witnesses) + accept-only-after-validators + sibling agreement + operand provenance of the Celestia split + verify-before-remove in the conductor reconstruction",
         "Decides that checked block types are only built in listed constructors, validating constructors return Ok only behind their Merkle-proof/root checks against the header data hash, unchecked constructors are confined to the sequencer storage read path, rollup maps are sorted before hashing, the two filter routines agree field by field, the Celestia split copies each rollup's own id/data/proof. Value equality of served data is not decided.", "4/C07"),
 "C10": ("who-may-call RPC sinks + must-dominate height-equality guards + operand provenance of Update variants + monotone-field rule",
         "Decides that ExecuteBlock is only reachable via execute_soft/firm behind height == next expected with the matching parent hash, contract check before every commitment update, Update variants pair with the path and the rollup number mapped from this height, block-cache next height only moves forward, CommitmentState only built with firm <= soft. Interleavings are not enumerated.", "4/C10"),
 "C11": ("who-may-write filesystem inventory + temp-write-then-rename ordering + typestate constructor discipline + confirmed-height and durable-height provenance + refusal-leaves-no-trace effect rule",
         "Decides that the state file is only produced by write(temp) then rename(temp, path), typestate tokens are only minted behind the durable write of their record, the broadcast lies behind the durable prepared record, started(h) takes h from a confirmed result and the prepared height, the reader restarts from the last confirmed height, failed/pending Celestia responses are never reported as confirmed. The crash-point x outcome product is not enumerated.", "4/C11"),
 "C12": ("must-dominate size guard + pairing of input/payload moves + filter control-dependence + in-place-edit (aliasing) rule + exhaustive-loop rule + writer/reader type agreement",
         "Decides that a batch is committed only under compressed_size <= 1_000_000 and together with the payload derived from the same candidate, refusals mutate nothing, take moves input and payload together, the rollup filter guards rollup entries only (metadata unconditional), and relayer/conductor use the same two list types, compression helpers and namespaces. Exactly-once over block streams is not decided.", "4/C12"),
 "C16": ("must-dominate size comparisons + stored-equals-measured operand provenance + failure atomicity + who-may-touch queue inventory",
         "Decides that the bundle grows only behind both size comparisons by the compared amount, refusing paths do not write, the finished queue is touched only by push_back/pop_front/len, a flush only happens with room in the queue and is followed by the re-push, pop_now prefers finished bundles. Exactly-once over all push/pop sequences is not decided.", "4/C16"),
}
NA = {}
checks = []
for p in props:
    pid = p['id']
    if pid in CLAIMS:
        tech, text, ref = CLAIMS[pid]
        checks.append({
            "property_id": pid,
            "quick_cmd": f"./check {pid} --tier quick",
            "thorough_cmd": f"./check {pid} --tier thorough",
            "evidence_file": f"/verif/evidence/{pid}.json",
            "replay_cmd_template": "./check --replay {path}",
            "engine": "astria-facts+rules",
            "level_claimed": {"category": "other", "text": text, "design_ref": ref},
            "level_note": "Static analysis of the mir_built MIR of /repo's current tree (rustc 1.97 nightly front end; dependency ethnum type-checked from a one-line-patched copy; third-party crates opaque; production cfg only). Structural necessary conditions, not behaviour over histories.",
            "technique": "static analysis: " + tech,
        })
na = [{"property_id": p['id'], "reason": NA.get(p['id'], "check under construction: static rule module not yet landed (see DESIGN.md section 4)")} for p in props if p['id'] not in CLAIMS]
m = {"version": 1, "setup_cmd": "./setup.sh",
     "hooks": {"guard": "astriaorg_astria_verif", "enable": "not needed: nothing is instrumented; checks read /repo's sources through a rustc driver (RUSTC_WRAPPER) under cargo +nightly check",
               "baseline_off_cmd": "cd /repo && cargo nextest run --workspace --no-fail-fast --offline",
               "source_commits": [], "add_only": True},
     "engines": [{"name": "astria-facts", "path": "driver/", "serves_properties": sorted(CLAIMS), "kind_free_text": "rustc_private driver dumping mir_built bodies, ADTs and impl tables as JSON lines"},
                 {"name": "rules", "path": "rules/", "serves_properties": sorted(CLAIMS), "kind_free_text": "python3 rule engine: CFG, dominance/must-pass, value flow, operand roots, call graph, rule kinds K1-K8"}],
     "checks": checks, "not_applicable": na,
     "notes": "Known findings are listed in known_findings.json (exact rule-instance keys); fix commits in /repo are listed under hooks.source_commits."}
fixes = os.path.join(V, 'fix_commits.txt')
if os.path.exists(fixes):
    m["hooks"]["source_commits"] = [l.split()[0] for l in open(fixes) if l.strip()]
json.dump(m, open(os.path.join(V, 'MANIFEST.json'), 'w'), indent=1)
print(len(checks), "checks;", len(na), "not claimed")

#!/usr/bin/env python3
"""Generate /verif/mutants/*.patch (one broken rule instance each) and /verif/refactors/*.patch
(behaviour-preserving edits) from a table of textual substitutions against /repo's current
sources.  Each patch starts with `# expect: <substring of the violation key>` for mutants.
Patches are plain unified diffs (applied with patch -p1 in a scratch copy by the thorough tier);
that they still compile and are detected is checked by rules/selftest.py, not here."""
import difflib
import os
import sys

REPO = "/repo"
OUT_M = "/verif/mutants"
OUT_R = "/verif/refactors"
SQ = "crates/astria-sequencer/src/"
CO = "crates/astria-core/src/"
CD = "crates/astria-conductor/src/"
RL = "crates/astria-sequencer-relayer/src/"
CP = "crates/astria-composer/src/"
MK = "crates/astria-merkle/src/"

# (name, expect, note, [(file, old, new, occurrence)])
MUTANTS = [
    ("C01-wrapping-credit", "L2", "credit computed with wrapping_add",
     [(SQ + "accounts/state_ext.rs",
       "balance\n                .checked_add(amount)\n                .ok_or_eyre(\"failed to update account balance due to overflow\")?,",
       "balance.wrapping_add(amount),", 0)]),
    ("C01-credit-less-than-debit", "L3|MOVE", "transfer credits amount-1",
     [(SQ + "checked_actions/transfer.rs",
       ".increase_balance(&self.action.to, &self.action.asset, self.action.amount)",
       ".increase_balance(&self.action.to, &self.action.asset, self.action.amount.saturating_sub(1))", 0)]),
    ("C01-fee-debit-differs", "L3|FEE-IN", "signer debited less than the fee recorded",
     [(SQ + "checked_actions/checked_action.rs",
       ".decrease_balance(tx_signer, fee_asset, total_fee)",
       ".decrease_balance(tx_signer, fee_asset, total_fee.saturating_sub(1))", 0)]),
    ("C02-drop-guard-fee-change", "A1", "FeeChange::execute no longer runs its mutable checks",
     [(SQ + "checked_actions/fee_change.rs",
       "    pub(super) async fn execute<S: StateWrite>(&self, mut state: S) -> Result<()> {\n        self.run_mutable_checks(&state).await?;\n",
       "    pub(super) async fn execute<S: StateWrite>(&self, mut state: S) -> Result<()> {\n", 0)]),
    ("C02-inverted-authority", "A2", "sudo comparison inverted",
     [(SQ + "checked_actions/sudo_address_change.rs",
       "&sudo_address == self.tx_signer.as_bytes(),", "&sudo_address != self.tx_signer.as_bytes(),", 0)]),
    ("C02-withdrawer-of-wrong-account", "A2", "withdrawer looked up under action.to",
     [(SQ + "checked_actions/bridge/bridge_unlock.rs",
       ".get_bridge_account_withdrawer_address(&self.action.bridge_address)",
       ".get_bridge_account_withdrawer_address(&self.action.to)", 0)]),
    ("C03-nonce-guard-relaxed", "N1", "nonce guard only rejects stale nonces",
     [(SQ + "checked_transaction/mod.rs", "if current_nonce != tx_nonce {", "if current_nonce > tx_nonce {", 0)]),
    ("C03-nonce-plus-two", "N1|next-nonce", "nonce incremented by two",
     [(SQ + "checked_transaction/mod.rs", "            .checked_add(1)\n            .ok_or(CheckedTransactionExecutionError::NonceOverflowed)?;",
       "            .checked_add(2)\n            .ok_or(CheckedTransactionExecutionError::NonceOverflowed)?;", 0)]),
    ("C04-event-recorded-under-destination", "B3", "withdrawal event recorded under action.to",
     [(SQ + "checked_actions/bridge/bridge_unlock.rs",
       "            .put_withdrawal_event_rollup_block_number(\n                &self.action.bridge_address,",
       "            .put_withdrawal_event_rollup_block_number(\n                &self.action.to,", 0)]),
    ("C04-deposit-amount-differs", "B1", "deposit amount differs from the credited amount",
     [(SQ + "checked_actions/bridge/bridge_lock.rs", "            amount: action.amount,\n",
       "            amount: action.amount.saturating_add(1),\n", 0)]),
    ("C05-no-reset-in-finalize", "D0", "finalize_block does not reset state on the not-cached path",
     [(SQ + "app/mod.rs", "            // clear out state before execution.\n            self.update_state_for_new_round(&storage);\n",
       "            // clear out state before execution.\n", 0)]),
    ("C05-commitment-not-sorted", "D2", "rollup commitment derived from unsorted map",
     [(SQ + "proposal/commitment.rs", "    rollup_ids_to_txs.sort_unstable_keys();\n", "", 0)]),
    ("C06-ids-commitment-unchecked", "P2", "rollup ids commitment no longer compared",
     [(SQ + "app/mod.rs", "                expanded_block_data.rollup_ids_root == expected_rollup_ids_root,",
       "                expanded_block_data.rollup_ids_root == expanded_block_data.rollup_ids_root,", 0)]),
    ("C06-cometbft-counter-not-grown", "P4", "cometbft byte counter not increased after inclusion",
     [(SQ + "app/mod.rs", "        proposal_info\n            .block_size_constraints_mut()\n            .cometbft_checked_add(tx_len)\n            .wrap_err(\"error growing cometBFT block size\")?;\n", "", 0)]),
    ("C07-try_build-unsorted", "R2", "block builder derives trees from the unsorted rollup map",
     [(CO + "sequencerblock/v1/block/mod.rs", "        rollup_datas.sort_unstable_keys();\n", "", 0)]),
    ("C07-ids-proof-unchecked", "R1", "SequencerBlock decoding skips the rollup ids proof",
     [(CO + "sequencerblock/v1/block/mod.rs",
       "        if !are_rollup_ids_included(rollup_transactions.keys(), &rollup_ids_proof, data_hash) {\n            return Err(SequencerBlockError::invalid_rollup_ids_proof());\n        }\n", "", 0)]),
    ("C08-inner-prefix-zero", "M2", "inner nodes hashed with the leaf prefix",
     [(MK + "lib.rs", "    hasher.update([0x01_u8]);", "    hasher.update([0x00_u8]);", 0)]),
    ("C08-walk-order-swapped", "M2|walk-order", "audit walk combines in the wrong order",
     [(MK + "audit.rs", "            if parent > i {\n                acc = crate::combine(&acc, sibling);\n            } else {\n                acc = crate::combine(sibling, &acc);\n            }",
       "            if parent > i {\n                acc = crate::combine(sibling, &acc);\n            } else {\n                acc = crate::combine(&acc, sibling);\n            }", 0)]),
    ("C08-unbounded-walk", "M1", "audit walk no longer bounded by the leaf's depth",
     [(MK + "audit.rs", "audit_path.chunks(32).take(steps)", "audit_path.chunks(32)", 0)]),
    ("C09-mismatch-not-dropped", "Q1a", "verify_metadata falls through after a mismatch",
     [(CD + "celestia/verify.rs", "            info!(reason = %error, \"failed to verify metadata retrieved from Celestia; dropping it\");\n            return None;\n",
       "            info!(reason = %error, \"failed to verify metadata retrieved from Celestia; dropping it\");\n", 0)]),
    ("C09-quorum-nonstrict", "Q2|strict-compare", "exactly 2/3 of the voting power accepted",
     [(CD + "celestia/block_verifier.rs", "    u128::from(commited) * 3 > u128::from(total) * 2",
       "    u128::from(commited) * 3 >= u128::from(total) * 2", 0)]),
    ("C09-quorum-half", "Q2|factors", "simple majority accepted as quorum",
     [(CD + "celestia/block_verifier.rs", "    u128::from(commited) * 3 > u128::from(total) * 2",
       "    u128::from(commited) * 2 > u128::from(total)", 0)]),
    ("C09-divide-first", "Q2", "quorum threshold divides before multiplying",
     [(CD + "celestia/block_verifier.rs", "    u128::from(commited) * 3 > u128::from(total) * 2", "    commited > total / 3 * 2", 0)]),
    ("C09-foreign-rollup-accepted", "Q4", "rollup id of the blob is not compared",
     [(CD + "celestia/reconstruct.rs", "        if rollup.rollup_id() != rollup_id {", "        if false && rollup.rollup_id() != rollup_id {", 0)]),
    ("C10-firm-on-soft-parent", "X2|firm:parent", "firm block executed on the soft head",
     [(CD + "executor/mod.rs", "            let parent_hash = self.state.firm_hash();", "            let parent_hash = self.state.soft_hash();", 0)]),
    ("C10-cache-skips-height", "X4", "block cache advances by two",
     [(CD + "block_cache.rs", "            .checked_add(1)\n            .expect(\"block height must not exceed `u64::MAX`\");",
       "            .checked_add(2)\n            .expect(\"block height must not exceed `u64::MAX`\");", 0)]),
    ("C11-write-in-place", "S1", "state file written in place instead of temp+rename",
     [(RL + "relayer/submission.rs", "        tokio::fs::write(&temp_file.0, &contents)", "        tokio::fs::write(&destination.0, &contents)", 0)]),
    ("C11-started-records-old-height", "S2|into_started", "completed submission records the previous height",
     [(RL + "relayer/submission.rs", "CompletedSubmission::new(celestia_height, self.sequencer_height);",
       "CompletedSubmission::new(celestia_height, self.last_submission.sequencer_height);", 0)]),
    ("C12-bound-on-uncompressed", "T1", "payload bound compared against the uncompressed size",
     [(RL + "relayer/write/conversion.rs", "        if payload_candidate.compressed_size <= MAX_PAYLOAD_SIZE_BYTES {",
       "        if payload_candidate.uncompressed_size <= MAX_PAYLOAD_SIZE_BYTES {", 0)]),
    ("C12-filter-inverted", "T3", "rollup filter inverted",
     [(RL + "relayer/write/conversion.rs", "            if rollup_filter.should_include(&elem.rollup_id()) {",
       "            if !rollup_filter.should_include(&elem.rollup_id()) {", 0)]),
    ("C13-demotion-failure-silent", "MP1", "failed demotion no longer reported",
     [(SQ + "mempool/mod.rs", "                        self.contained_txs.remove(&tx_id);\n                        self.comet_bft_removal_cache\n                            .add(tx_id, RemovalReason::InternalError);\n                        self.metrics.increment_internal_logic_error();\n                        error!(\n                            address = %telemetry::display::base64(&address_bytes),\n                            current_nonce, %tx_id, %error,\n                            \"failed to demote",
       "                        self.contained_txs.remove(&tx_id);\n                        self.metrics.increment_internal_logic_error();\n                        error!(\n                            address = %telemetry::display::base64(&address_bytes),\n                            current_nonce, %tx_id, %error,\n                            \"failed to demote", 0)]),
    ("C13-no-balance-check", "MP2", "per-account insert skips the balance-cover check",
     [(SQ + "mempool/transactions_container.rs", "        if !self.has_balance_to_cover(&ttx, current_account_balances) {\n            return Err(InsertionError::AccountBalanceTooLow);\n        }\n\n", "", 0)]),
    ("C14-count-plus-two", "V1", "validator count incremented by two",
     [(SQ + "checked_actions/validator_update.rs", "metadata.current_validator_count.saturating_add(1)", "metadata.current_validator_count.saturating_add(2)", 0)]),
    ("C14-updates-not-cleared", "V3", "per-block validator updates never cleared",
     [(SQ + "app/mod.rs", "        state_tx.clear_block_validator_updates();\n", "", 0)]),
    ("C15-threshold-div-first", "O1", "threshold divides before multiplying",
     [(SQ + "app/vote_extension.rs", "        .checked_mul(2)\n        .ok_or_eyre(\"failed to multiply total voting power by 2\")?\n        .checked_div(3)\n        .ok_or_eyre(\"failed to divide total voting power by 3\")?",
       "        .checked_div(3)\n        .ok_or_eyre(\"failed to divide total voting power by 3\")?\n        .checked_mul(2)\n        .ok_or_eyre(\"failed to multiply total voting power by 2\")?", 0)]),
    ("C15-duplicate-voters-counted", "O2", "duplicate-voter guard disabled",
     [(SQ + "app/vote_extension.rs", "            validators_that_voted.insert(&vote.validator.address),",
       "            validators_that_voted.insert(&vote.validator.address) || true,", 0)]),
    ("C16-lifo-pop", "G2", "pop_now takes the newest finished bundle",
     [(CP + "executor/bundle_factory/mod.rs", "        self.finished\n            .pop_front()\n            .or_else(", "        self.finished\n            .pop_back()\n            .or_else(", 0)]),
    ("C16-size-limit-doubled", "G1", "bundle accepts up to twice the limit",
     [(CP + "executor/bundle_factory/mod.rs", "        if new_size > self.max_size {", "        if new_size > self.max_size.saturating_mul(2) {", 0)]),
    ("C17-unwrap-in-decoder", "W1", "decoder unwraps a length-dependent conversion",
     [(CO + "sequencerblock/v1/celestia.rs", "RollupId::try_from_raw(rollup_id).map_err(SubmittedRollupDataError::rollup_id)?;",
       "RollupId::try_from_raw(rollup_id).map_err(SubmittedRollupDataError::rollup_id).unwrap();", 0)]),
    ("C18-zone-or", "I2|table", "transfer source zone uses OR",
     [(SQ + "ibc/ics20_transfer.rs", "    asset.has_leading_port(port) && asset.has_leading_channel(channel)",
       "    asset.has_leading_port(port) || asset.has_leading_channel(channel)", 0)]),
    ("C18-refund-destination-channel", "I2|refund:source", "refund treats the destination as the source",
     [(SQ + "ibc/ics20_transfer.rs", "        &packet.port_on_a,\n        &packet.chan_on_a,\n    )\n    .await\n    .context(\"failed to refund a sequencer address\")?;",
       "        &packet.port_on_b,\n        &packet.chan_on_b,\n    )\n    .await\n    .context(\"failed to refund a sequencer address\")?;", 0)]),
    ("C18-receive-on-block-state", "I3", "receive runs directly on the block state again",
     [(SQ + "ibc/ics20_transfer.rs", "        let ack = match receive_tokens(&mut delta, &msg.packet).await {\n            Ok(()) => {\n                let (state, events) = delta.apply();\n                for event in events {\n                    state.record(event);\n                }\n                TokenTransferAcknowledgement::success()\n            }\n            Err(e) => {\n                drop(delta);\n",
       "        drop(delta);\n        let ack = match receive_tokens(&mut state, &msg.packet).await {\n            Ok(()) => TokenTransferAcknowledgement::success(),\n            Err(e) => {\n", 0)]),
    ("C15-power-self-compare", "O5", "last-commit cross-check compares the power with itself",
     [(SQ + "app/vote_extension.rs",
       "            last_commit_vote.validator.power == extended_commit_info_vote.validator.power,",
       "            last_commit_vote.validator.power == last_commit_vote.validator.power,", 0)]),
    ("C15-vote-count-unchecked", "O5", "vote-count equality dropped: zip truncates to the shorter list",
     [(SQ + "app/vote_extension.rs",
       "    ensure!(\n        last_commit.votes.len() == extended_commit_info.votes.len(),\n        \"last commit votes length does not match extended commit votes length\"\n    );\n",
       "", 0)]),
    ("C13-track-before-add", "MP3", "id tracked before the container add (both arms share one insert)",
     [(SQ + "mempool/mod.rs",
       "        let tx_id_to_insert = *ttx_to_insert.id();\n\n        // try insert into pending\n",
       "        let tx_id_to_insert = *ttx_to_insert.id();\n        // track in contained txs\n        self.contained_txs.insert(tx_id_to_insert);\n\n        // try insert into pending\n", 0)]),
    ("C11-restart-from-prepared-height", "S4", "after a restart the in-flight (prepared) height counts as completed",
     [(RL + "relayer/submission.rs",
       "            | SubmissionStateAtStartup::Prepared(PreparedSubmission {\n                last_submission, ..\n            }) => Some(last_submission.sequencer_height),",
       "            => Some(last_submission.sequencer_height),\n            SubmissionStateAtStartup::Prepared(PreparedSubmission {\n                sequencer_height, ..\n            }) => Some(*sequencer_height),", 0)]),
    ("C10-commitment-firm-may-exceed-soft", "X5", "CommitmentState builder no longer rejects firm > soft",
     [(CO + "execution/v2/mod.rs",
       "        if firm_executed_block_metadata.number() > soft_executed_block_metadata.number() {",
       "        if firm_executed_block_metadata.number() > soft_executed_block_metadata.number().saturating_add(1) {", 0)]),
    ("C11-pending-height-reported", "S5", "a GetTx response with height 0 (still pending) is reported as confirmed",
     [(RL + "relayer/celestia_client/mod.rs", "    if tx_response.height == 0 {\n        trace!(tx_hash = %tx_response.txhash, \"transaction still pending\");",
       "    if tx_response.height < 0 {\n        trace!(tx_hash = %tx_response.txhash, \"transaction still pending\");", 0)]),
    ("C16-queue-capacity-off-by-one", "G3", "finished queue accepts one bundle more than its capacity",
     [(CP + "executor/bundle_factory/mod.rs", "                if self.finished.len() >= self.finished_queue_capacity {",
       "                if self.finished.len() > self.finished_queue_capacity {", 0)]),
    ("C12-take-leaves-input", "T2", "take() moves the payload out but leaves the accumulated input behind",
     [(RL + "relayer/write/conversion.rs", "        let input = std::mem::take(&mut next.input);\n",
       "        let input = next.input.clone();\n", 0)]),
    ("C12-excluded-rollup-ends-loop", "T3", "an excluded rollup ends the loop: later rollups of the block are dropped",
     [(RL + "relayer/write/conversion.rs", "                self.meta.rollups_excluded.insert(elem.rollup_id());\n",
       "                self.meta.rollups_excluded.insert(elem.rollup_id());\n                break;\n", 0)]),
    ("C01-fee-base-and-multiplier-swapped", "L4", "fee computed as multiplier + base * variable (accessors swapped)",
     [(SQ + "checked_actions/utils.rs",
       "        .checked_mul(fees.multiplier())\n        .and_then(|variable_fee| fees.base().checked_add(variable_fee))",
       "        .checked_mul(fees.base())\n        .and_then(|variable_fee| fees.multiplier().checked_add(variable_fee))", 0)]),
    ("C18-escrow-saturating-sub", "I1", "escrow debit saturates at zero instead of failing",
     [(SQ + "ibc/state_ext.rs",
       "        let new_balance = old_balance\n            .checked_sub(amount)\n            .ok_or_eyre(\"insufficient funds on ibc channel\")?;",
       "        let new_balance = old_balance.saturating_sub(amount);", 0)]),
    ("C03-swallowed-credit-failure", "N2", "a failed credit in BridgeLock::execute is logged and ignored",
     [(SQ + "checked_actions/bridge/bridge_lock.rs",
       "        state\n            .increase_balance(&self.action.to, &self.action.asset, self.action.amount)\n            .await\n            .wrap_err(\"failed to increase destination account balance\")?;\n\n        self.record_deposit(state);",
       "        if let Err(error) = state\n            .increase_balance(&self.action.to, &self.action.asset, self.action.amount)\n            .await\n        {\n            tracing::warn!(%error, \"failed to increase destination account balance\");\n        }\n\n        self.record_deposit(state);", 0)]),
    ("C07-filtered-proof-swapped", "R3", "to_filtered_block attaches the rollup-ids proof as the transactions proof (copy-paste slip)",
     [(CO + "sequencerblock/v1/block/mod.rs",
       "            rollup_transactions: filtered_rollup_transactions,\n            rollup_transactions_proof: self.rollup_transactions_proof.clone(),\n            all_rollup_ids,\n            rollup_ids_proof: self.rollup_ids_proof.clone(),",
       "            rollup_transactions: filtered_rollup_transactions,\n            rollup_transactions_proof: self.rollup_ids_proof.clone(),\n            all_rollup_ids,\n            rollup_ids_proof: self.rollup_ids_proof.clone(),", 0)]),
    ("C06-process-skips-misordered", "P3", "process_proposal skips a mis-ordered transaction instead of rejecting the block",
     [(SQ + "app/mod.rs",
       "                } => {\n                    bail!(\"transactions have incorrect transaction group ordering\");\n                }",
       "                } => {\n                    return Ok(BreakOrContinue::Continue);\n                }", 0)]),
    ("C17-lossy-decimals-cast", "W3", "Ticker decimals decoded with `as u8` instead of try_into (256 decodes as 0)",
     [(CO + "oracles/price_feed/market_map.rs",
       "            let decimals = raw\n                .decimals\n                .try_into()\n                .map_err(|_| TickerError::decimals_too_large())?;",
       "            let decimals = raw.decimals as u8;", 0)]),
    ("C06-sort-before-deposits-merged", "P5", "rollup map sorted before the deposits are merged in",
     [(SQ + "proposal/commitment.rs",
       "    let mut rollup_ids_to_txs = group_rollup_data_submissions_by_rollup_id(rollup_data_bytes);\n",
       "    let mut rollup_ids_to_txs = group_rollup_data_submissions_by_rollup_id(rollup_data_bytes);\n    rollup_ids_to_txs.sort_unstable_keys();\n", 0),
      (SQ + "proposal/commitment.rs",
       "    }\n\n    rollup_ids_to_txs.sort_unstable_keys();\n    let rollup_ids_root",
       "    }\n\n    let rollup_ids_root", 0)]),
    ("C08-right-child-midpoint", "M4", "re-attached right child taken as the midpoint of the remaining nodes",
     [(MK + "lib.rs",
       "        let root = complete_root(n.checked_sub(i_plus_one).unwrap());\n        i_plus_one.checked_add(root).unwrap()",
       "        let rest = n.checked_sub(i_plus_one).unwrap();\n        i_plus_one.checked_add(rest >> 1).unwrap()", 0)]),
    ("C08-proof-fields-public", "K9|witness:merkle:fail_proof_literal", "merkle Proof fields made public: proofs can be assembled unchecked",
     [(MK + "audit.rs",
       "    pub(super) audit_path: Vec<u8>,\n    pub(super) leaf_index: usize,\n    pub(super) tree_size: NonZeroUsize,\n}\n\nimpl Proof {",
       "    pub audit_path: Vec<u8>,\n    pub leaf_index: usize,\n    pub tree_size: NonZeroUsize,\n}\n\nimpl Proof {", 0)]),
    ("C02-transaction-fields-public", "K9|witness:core:fail_transaction_literal", "Transaction fields made public: a body can be paired with a foreign signature",
     [(CO + "protocol/transaction/v1/mod.rs",
       "pub struct Transaction {\n    signature: Signature,\n    verification_key: VerificationKey,\n    body: TransactionBody,\n    body_bytes: bytes::Bytes,\n}",
       "pub struct Transaction {\n    pub signature: Signature,\n    pub verification_key: VerificationKey,\n    pub body: TransactionBody,\n    pub body_bytes: bytes::Bytes,\n}", 0)]),
]

REFACTORS = [
    ("C14-reorder-count-and-entry", "", "removal writes the count before it deletes the entry",
     [(SQ + "checked_actions/validator_update.rs",
       "                state.remove_validator(&self.action.verification_key).await;\n                state\n                    .put_validator_count(metadata.current_validator_count.saturating_sub(1))\n                    .wrap_err(\"failed to write validator count to storage\")?;",
       "                state\n                    .put_validator_count(metadata.current_validator_count.saturating_sub(1))\n                    .wrap_err(\"failed to write validator count to storage\")?;\n                state.remove_validator(&self.action.verification_key).await;", 0)]),
    ("C01-credit-before-debit-in-bridge-lock", "", "bridge lock credits the bridge account before it debits the signer (same transaction delta)",
     [(SQ + "checked_actions/bridge/bridge_lock.rs",
       "        state\n            .decrease_balance(&self.tx_signer, &self.action.asset, self.action.amount)\n            .await\n            .wrap_err(\"failed to decrease signer account balance\")?;\n        state\n            .increase_balance(&self.action.to, &self.action.asset, self.action.amount)\n            .await\n            .wrap_err(\"failed to increase destination account balance\")?;",
       "        state\n            .increase_balance(&self.action.to, &self.action.asset, self.action.amount)\n            .await\n            .wrap_err(\"failed to increase destination account balance\")?;\n        state\n            .decrease_balance(&self.tx_signer, &self.action.asset, self.action.amount)\n            .await\n            .wrap_err(\"failed to decrease signer account balance\")?;", 0)]),
    ("C18-is-source-de-morgan", "", "is_source rewritten with a correct De Morgan form and a match",
     [(SQ + "checked_actions/ics20_withdrawal.rs",
       "    if let Denom::TracePrefixed(trace) = asset {\n        !trace.has_leading_port(source_port) || !trace.has_leading_channel(source_channel)\n    } else {\n        false\n    }",
       "    match asset {\n        Denom::TracePrefixed(trace) => {\n            !(trace.has_leading_port(source_port) && trace.has_leading_channel(source_channel))\n        }\n        Denom::IbcPrefixed(_) => false,\n    }", 0)]),
    ("C04-swap-asset-guard", "", "asset guard of emit_deposit with swapped operands",
     [(SQ + "ibc/ics20_transfer.rs", "        allowed_asset == asset.to_ibc_prefixed(),\n",
       "        asset.to_ibc_prefixed() == allowed_asset,\n", 0)]),
    ("C06-swap-commitment-compare", "", "commitment comparisons with swapped operands",
     [(SQ + "app/mod.rs", "                expanded_block_data.rollup_transactions_root == expected_rollup_datas_root,",
       "                expected_rollup_datas_root == expanded_block_data.rollup_transactions_root,", 0),
      (SQ + "app/mod.rs", "                expanded_block_data.rollup_ids_root == expected_rollup_ids_root,",
       "                expected_rollup_ids_root == expanded_block_data.rollup_ids_root,", 0)]),
    ("C07-iterate-map-pairs", "", "FilteredSequencerBlock audit loop iterates (id, entry) pairs of the served map",
     [(CO + "sequencerblock/v1/block/mod.rs", "        for rollup_transactions in rollup_transactions.values() {\n            if !super::do_rollup_transactions_match_root(\n                rollup_transactions,",
       "        for (_, rollup_txs) in &rollup_transactions {\n            let rollup_transactions = rollup_txs;\n            if !super::do_rollup_transactions_match_root(\n                rollup_transactions,", 0)]),
    ("C13-get-is-none", "", "TransactionsForAccount::remove tests absence with get(..).is_none()",
     [(SQ + "mempool/transactions_container.rs", "        if !self.txs().contains_key(&nonce) {\n            error!(nonce, \"transaction with given nonce not found\");",
       "        if self.txs().get(&nonce).is_none() {\n            error!(nonce, \"transaction with given nonce not found\");", 0)]),
    ("C17-swap-length-compare", "", "address length check with swapped operands",
     [("crates/astria-core-address/src/lib.rs", "    if iter.len() != ADDRESS_LENGTH {", "    if ADDRESS_LENGTH != iter.len() {", 0)]),
    ("C08-geometry-respelled", "", "re-attached right child computed in a different but equal spelling",
     [(MK + "lib.rs",
       "        let i_plus_one = i.checked_add(1).unwrap();\n        let root = complete_root(n.checked_sub(i_plus_one).unwrap());\n        i_plus_one.checked_add(root).unwrap()",
       "        let rest = n.checked_sub(i).unwrap().checked_sub(1).unwrap();\n        complete_root(rest).checked_add(i).unwrap().checked_add(1).unwrap()", 0)]),
    ("C18-bind-result-first", "", "receive_tokens result bound to a local before the match",
     [(SQ + "ibc/ics20_transfer.rs",
       "        let ack = match receive_tokens(&mut delta, &msg.packet).await {",
       "        let transfer_result = receive_tokens(&mut delta, &msg.packet).await;\n        let ack = match transfer_result {", 0)]),
    ("C13-reorder-failure-arm", "", "removal-cache report moved before the contained_txs removal (demotion arm)",
     [(SQ + "mempool/mod.rs",
       "                        self.contained_txs.remove(&tx_id);\n                        self.comet_bft_removal_cache\n                            .add(tx_id, RemovalReason::InternalError);\n                        self.metrics.increment_internal_logic_error();\n                        error!(\n                            address = %telemetry::display::base64(&address_bytes),\n                            current_nonce, %tx_id, %error,\n                            \"failed to demote transaction during maintenance\"",
       "                        self.comet_bft_removal_cache\n                            .add(tx_id, RemovalReason::InternalError);\n                        self.contained_txs.remove(&tx_id);\n                        self.metrics.increment_internal_logic_error();\n                        error!(\n                            address = %telemetry::display::base64(&address_bytes),\n                            current_nonce, %tx_id, %error,\n                            \"failed to demote transaction during maintenance\"", 0)]),
    ("C14-early-return", "", "authority end_block: post-Aspen case returns early",
     [(SQ + "authority/component.rs",
       "        if use_pre_aspen_validator_updates(state)\n            .await\n            .wrap_err(\"failed to determine upgrade status\")?\n        {\n            let validator_updates = state\n                .get_block_validator_updates()\n                .await\n                .wrap_err(\"failed getting validator updates\")?;\n\n            let mut current_set = state\n                .pre_aspen_get_validator_set()\n                .await\n                .wrap_err(\"failed getting validator set\")?;\n            current_set.apply_updates(validator_updates);\n\n            state\n                .pre_aspen_put_validator_set(current_set)\n                .wrap_err(\"failed putting validator set\")?;\n        }\n        Ok(())",
       "        if !use_pre_aspen_validator_updates(state)\n            .await\n            .wrap_err(\"failed to determine upgrade status\")?\n        {\n            return Ok(());\n        }\n        let validator_updates = state\n            .get_block_validator_updates()\n            .await\n            .wrap_err(\"failed getting validator updates\")?;\n\n        let mut current_set = state\n            .pre_aspen_get_validator_set()\n            .await\n            .wrap_err(\"failed getting validator set\")?;\n        current_set.apply_updates(validator_updates);\n\n        state\n            .pre_aspen_put_validator_set(current_set)\n            .wrap_err(\"failed putting validator set\")?;\n        Ok(())", 0)]),
    ("C11-try-to-if-let-err", "", "state write `?` rewritten as if let Err(..) return",
     [(RL + "relayer/submission.rs",
       "        state\n            .write(&state_file_path, &temp_file_path)\n            .await\n            .wrap_err(\"failed commiting submission started state to disk\")?;",
       "        if let Err(error) = state.write(&state_file_path, &temp_file_path).await {\n            return Err(error.wrap_err(\"failed commiting submission started state to disk\"));\n        }", 0)]),
    ("C10-cmp-match-to-if-chain", "", "soft height three-way match rewritten as two ifs",
     [(CD + "executor/mod.rs",
       "        match executable_block.height.cmp(&expected_height) {\n            std::cmp::Ordering::Less => {\n                info!(\n                    expected_height.sequencer_block = %expected_height,\n                    \"block received was stale because firm blocks were executed first; dropping\",\n                );\n                return Ok(());\n            }\n            std::cmp::Ordering::Greater => bail!(\n                \"block received was out-of-order; was a block skipped? expected: \\\n                 {expected_height}, actual: {}\",\n                executable_block.height\n            ),\n            std::cmp::Ordering::Equal => {}\n        }",
       "        if executable_block.height < expected_height {\n            info!(\n                expected_height.sequencer_block = %expected_height,\n                \"block received was stale because firm blocks were executed first; dropping\",\n            );\n            return Ok(());\n        }\n        if executable_block.height > expected_height {\n            bail!(\n                \"block received was out-of-order; was a block skipped? expected: \\\n                 {expected_height}, actual: {}\",\n                executable_block.height\n            );\n        }", 0)]),
    ("C10-firm-ensure-to-if", "", "firm height ensure! rewritten as if/bail",
     [(CD + "executor/mod.rs",
       "        ensure!(\n            block_height == expected_height,\n            \"expected block at sequencer height {expected_height}, but got {block_height}\",\n        );",
       "        if block_height != expected_height {\n            bail!(\"expected block at sequencer height {expected_height}, but got {block_height}\");\n        }", 0)]),
    ("C01-hoist-amount", "", "transfer amount hoisted into a local used for both legs",
     [(SQ + "checked_actions/transfer.rs",
       "        state\n            .decrease_balance(&self.tx_signer, &self.action.asset, self.action.amount)\n            .await\n            .wrap_err(\"failed to decrease signer account balance\")?;\n        state\n            .increase_balance(&self.action.to, &self.action.asset, self.action.amount)",
       "        let amount = self.action.amount;\n        state\n            .decrease_balance(&self.tx_signer, &self.action.asset, amount)\n            .await\n            .wrap_err(\"failed to decrease signer account balance\")?;\n        state\n            .increase_balance(&self.action.to, &self.action.asset, amount)", 0)]),
    ("C03-swap-nonce-compare", "", "nonce guard with swapped operands",
     [(SQ + "checked_transaction/mod.rs", "if current_nonce != tx_nonce {", "if tx_nonce != current_nonce {", 0)]),
    ("C04-destructure-action", "", "bridge lock destructures the action before moving funds",
     [(SQ + "checked_actions/bridge/bridge_lock.rs",
       "        state\n            .decrease_balance(&self.tx_signer, &self.action.asset, self.action.amount)\n            .await\n            .wrap_err(\"failed to decrease signer account balance\")?;\n        state\n            .increase_balance(&self.action.to, &self.action.asset, self.action.amount)",
       "        let action = &self.action;\n        state\n            .decrease_balance(&self.tx_signer, &action.asset, action.amount)\n            .await\n            .wrap_err(\"failed to decrease signer account balance\")?;\n        state\n            .increase_balance(&action.to, &action.asset, action.amount)", 0)]),
    ("C05-invert-skip-branch", "", "if !skip {reset} rewritten as if skip {} else {reset}",
     [(SQ + "app/mod.rs", "        if !skip_execution {\n            // clear out state before execution.\n            self.update_state_for_new_round(&storage);\n        }",
       "        if skip_execution {\n            trace!(\"block was already executed\");\n        } else {\n            // clear out state before execution.\n            self.update_state_for_new_round(&storage);\n        }", 0)]),
    ("C08-swap-walk-compare", "", "audit walk direction test with swapped operands",
     [(MK + "audit.rs", "            if parent > i {\n                acc = crate::combine(&acc, sibling);",
       "            if i < parent {\n                acc = crate::combine(&acc, sibling);", 0)]),
    ("C09-let-else-to-match", "", "validator lookup let-else rewritten as match",
     [(CD + "celestia/block_verifier.rs",
       "        let Some(validator) = validator_map.get(validator_address) else {\n            return Err(QuorumError::NoSuchValidator {\n                validator: *validator_address,\n            });\n        };",
       "        let validator = match validator_map.get(validator_address) {\n            Some(validator) => validator,\n            None => {\n                return Err(QuorumError::NoSuchValidator {\n                    validator: *validator_address,\n                })\n            }\n        };", 0)]),
    ("C09-contains-then-insert", "", "duplicate check split into contains + insert",
     [(CD + "celestia/block_verifier.rs",
       "        if !seen_validators.insert(*validator_address) {\n            return Err(QuorumError::DuplicateValidator {\n                validator: *validator_address,\n            });\n        }",
       "        if seen_validators.contains(validator_address) {\n            return Err(QuorumError::DuplicateValidator {\n                validator: *validator_address,\n            });\n        }\n        seen_validators.insert(*validator_address);", 0)]),
    ("C12-swap-size-compare", "", "payload size comparison with swapped operands",
     [(RL + "relayer/write/conversion.rs", "        if payload_candidate.compressed_size <= MAX_PAYLOAD_SIZE_BYTES {",
       "        if MAX_PAYLOAD_SIZE_BYTES >= payload_candidate.compressed_size {", 0)]),
    ("C15-ensure-to-if-bail", "", "quorum ensure! rewritten as if/bail",
     [(SQ + "app/vote_extension.rs",
       "    ensure!(\n        submitted_voting_power >= required_voting_power,\n        \"submitted voting power is less than required voting power\",\n    );",
       "    if submitted_voting_power < required_voting_power {\n        bail!(\"submitted voting power is less than required voting power\");\n    }", 0)]),
    ("C02-ensure-to-if-bail", "", "ensure! rewritten as if/bail",
     [(SQ + "checked_actions/sudo_address_change.rs",
       "        ensure!(\n            &sudo_address == self.tx_signer.as_bytes(),\n            \"transaction signer not authorized to change sudo address\",\n        );",
       "        if &sudo_address != self.tx_signer.as_bytes() {\n            return Err(astria_eyre::eyre::eyre!(\n                \"transaction signer not authorized to change sudo address\"\n            ));\n        }", 0)]),
    ("C01-rename-local", "", "local renamed in increase_balance",
     [(SQ + "accounts/state_ext.rs", "        let balance = self\n            .get_account_balance(address, asset)\n            .await\n            .wrap_err(\"failed to get account balance\")?;\n        self.put_account_balance(\n            address,\n            asset,\n            balance\n                .checked_add(amount)",
       "        let current = self\n            .get_account_balance(address, asset)\n            .await\n            .wrap_err(\"failed to get account balance\")?;\n        self.put_account_balance(\n            address,\n            asset,\n            current\n                .checked_add(amount)", 0)]),
    ("C09-quorum-checked-form", "", "quorum comparison written with checked_mul on u128",
     [(CD + "celestia/block_verifier.rs", "    u128::from(commited) * 3 > u128::from(total) * 2",
       "    let (c, t) = (u128::from(commited), u128::from(total));\n    c.checked_mul(3).zip(t.checked_mul(2)).is_some_and(|(c3, t2)| c3 > t2)", 0)]),
    ("C16-reorder-independent-reads", "", "size computed after the first comparison's operand read",
     [(CP + "executor/bundle_factory/mod.rs", "        let seq_action_size = encoded_len(&seq_action);\n\n        if seq_action_size > self.max_size {",
       "        let max_size = self.max_size;\n        let seq_action_size = encoded_len(&seq_action);\n\n        if seq_action_size > max_size {", 0)]),
]


# behaviour-preserving renames inside one function: (name, note, file, start marker, end marker,
# [(old identifier, new identifier), ...])
RENAMES = [
    ("C16-rename-parameter", "parameter seq_action of SizedBundle::try_push renamed",
     CP + "executor/bundle_factory/mod.rs",
     "    fn try_push(&mut self, seq_action: RollupDataSubmission) -> Result<(), SizedBundleError> {",
     "    /// Replace self with a new empty bundle, returning the old bundle.",
     [("seq_action_size", "submission_size"), ("seq_action", "submission")]),
    ("C12-rename-parameter", "parameters of Input::extend_from_sequencer_block renamed",
     RL + "relayer/write/conversion.rs",
     "    fn extend_from_sequencer_block(", "    fn greatest_sequencer_height(&self)",
     [("rollup_filter", "filter"), ("block", "sequencer_block")]),
    ("C01-rename-parameter", "parameter `state` of CheckedTransfer::execute renamed",
     SQ + "checked_actions/transfer.rs",
     "    pub(super) async fn execute<S: StateWrite>(&self, mut state: S) -> Result<()> {",
     "impl AssetTransfer for CheckedTransfer",
     [("state", "delta")]),
    ("C09-rename-accumulator", "tally variable of ensure_commit_has_quorum renamed",
     CD + "celestia/block_verifier.rs",
     "pub(super) fn ensure_commit_has_quorum(", "fn does_commit_voting_power_have_quorum(",
     [("            commit_voting_power,\n", "            commit_voting_power: tally,\n"),
      ("            total_voting_power,\n", "            total_voting_power: all_power,\n"),
      ("commit_voting_power", "tally"), ("total_voting_power", "all_power"),
      ("tally: tally", "commit_voting_power: tally"), ("all_power: all_power", "total_voting_power: all_power")]),
    ("C15-rename-accumulators", "accumulators of validate_vote_extensions renamed",
     SQ + "app/vote_extension.rs",
     "async fn validate_vote_extensions<S: StateReadExt>(", "fn validate_extended_commit_against_last_commit(",
     [("submitted_voting_power", "submitted"), ("total_voting_power", "total"),
      ("validators_that_voted", "seen")]),
    ("C08-rename-loop-variables", "loop variables of audit_path_len renamed",
     MK + "lib.rs",
     "fn audit_path_len(leaf_index: usize, tree_size: usize) -> Option<usize> {", "fn is_tree_index_in_tree(",
     [("len", "steps"), ("root", "top")]),
    ("C08-rename-climb-variable", "loop variable of LeafBuilder::drop renamed",
     MK + "lib.rs",
     "impl Drop for LeafBuilder<'_> {", "impl<'a> LeafBuilder<'a> {" if False else "\n/// ",
     [("idx", "node"), ("new_value", "hash")]),
    ("C15-rename-parameter", "parameters of validate_extended_commit_against_last_commit renamed",
     SQ + "app/vote_extension.rs",
     "fn validate_extended_commit_against_last_commit(", "    Ok(())\n}\n",
     [("extended_commit_info_vote", "ext_vote"), ("last_commit_vote", "lc_vote"),
      ("extended_commit_info", "extended"), ("last_commit", "previous")]),
]


def make_renames(outdir):
    import re as _re
    bad = 0
    for name, note, rel, start, end, pairs in RENAMES:
        src = open(os.path.join(REPO, rel)).read()
        try:
            a = src.index(start)
            b = src.index(end, a + len(start))
        except ValueError:
            print(f"!! {name}: markers not found in {rel}", file=sys.stderr)
            bad += 1
            continue
        fn = src[a:b]
        for old, new in pairs:
            fn = _re.sub(r"(?<![\w.])" + _re.escape(old) + r"(?!\w)", new, fn)
        dst = src[:a] + fn + src[b:]
        diff = "".join(difflib.unified_diff(src.splitlines(True), dst.splitlines(True),
                                            "a/" + rel, "b/" + rel, n=3))
        with open(os.path.join(outdir, name + ".patch"), "w") as f:
            f.write(f"# note: {note}\n" + diff)
    return bad


def make(table, outdir, is_mut):
    os.makedirs(outdir, exist_ok=True)
    for f in os.listdir(outdir):
        if f.endswith(".patch"):
            os.remove(os.path.join(outdir, f))
    bad = 0
    for name, expect, note, subs in table:
        chunks = []
        for (rel, old, new, occ) in subs:
            src = open(os.path.join(REPO, rel)).read()
            n = src.count(old)
            if n < 1:
                print(f"!! {name}: pattern not found in {rel}", file=sys.stderr)
                bad += 1
                continue
            idx = -1
            for _ in range(occ + 1):
                idx = src.index(old, idx + 1)
            dst = src[:idx] + new + src[idx + len(old):]
            diff = difflib.unified_diff(src.splitlines(True), dst.splitlines(True), "a/" + rel, "b/" + rel, n=3)
            chunks.append("".join(diff))
        if not chunks:
            continue
        with open(os.path.join(outdir, name + ".patch"), "w") as f:
            if is_mut:
                f.write(f"# expect: {expect}\n")
            f.write(f"# note: {note}\n")
            f.write("".join(chunks))
    return bad


if __name__ == "__main__":
    b = make(MUTANTS, OUT_M, True) + make(REFACTORS, OUT_R, False) + make_renames(OUT_R)
    print(f"{len(MUTANTS)} mutants, {len(REFACTORS) + len(RENAMES)} refactors, {b} patterns missing")

#!/usr/bin/env python3
"""Freeze today's parameter / captured-variable names by position: rules/param_names.json maps a
body's def-path key to {place: name} for the places that are parameters of the body (locals
1..argc and their projections, i.e. `async fn` / closure captures).  The rule engine shows these
frozen names for those positions whatever the parameters are called in the tree under analysis,
so renaming a parameter (behaviour preserving) does not change any operand root.  Bodies that are
not in the table (new functions) or whose arity changed keep their live names.
Run after the fact files of the *reference* tree were produced:  python3 tools/gen_param_names.py"""
import glob, json, os, sys
V = os.path.dirname(os.path.dirname(os.path.abspath(__file__)))
out = {}
for f in sorted(glob.glob(os.path.join(V, ".cache", "facts", "*.jsonl"))):
    for line in open(f):
        o = json.loads(line)
        if o.get("t") != "body":
            continue
        names = {}
        for n, p in o["dbg"]:
            l = int(p.split("|")[0])
            if 1 <= l <= o["argc"] and not n.startswith("__"):
                names.setdefault(p, n)
        # user-named locals in declaration order (for the detection of pure renames)
        locs = [n for n, p in o["dbg"] if int(p.split("|")[0]) > o["argc"] and not n.startswith("__")]
        if names or locs:
            out[o["key"]] = {"argc": o["argc"], "names": names, "locals": locs}
json.dump(out, open(os.path.join(V, "rules", "param_names.json"), "w"), sort_keys=True, separators=(",", ":"))
print(len(out), "bodies")

#!/bin/bash
# list current violations (key + what) of the given properties as JSON lines
cd /verif
for id in "$@"; do
  rm -f evidence/replay/$id-*.json
  ./check $id >/dev/null 2>&1
  for f in evidence/replay/$id-*.json; do [ -f "$f" ] && python3 -c "
import json,sys; v=json.load(open('$f')); print(json.dumps({'property':v['property'],'key':v['key'],'what':v['what'][:300],'where':v['where']}))"; done
done

#!/usr/bin/env python3
"""tools/promote_seed.py <id> <caught_by> <first_run: yes|no> [note]
Move a seed from seeded/_incoming/<id> to seeded/<id> after tools/verify_seed.sh confirmed it, and
record in meta.json what was run here and which rule reports it."""
import json, os, re, shutil, subprocess, sys
sid, caught, first = sys.argv[1], sys.argv[2], sys.argv[3]
note = sys.argv[4] if len(sys.argv) > 4 else ""
src, dst = f"/verif/seeded/_incoming/{sid}", f"/verif/seeded/{sid}"
log = open(os.path.join(src, "verify.log")).read()
verdict = [l for l in log.splitlines() if l.startswith(sid + ":")][-1]
sums = re.findall(r"=== (\w): .*?\n((?:.*\n)*?)rc=(\d+)", log)
ok = len(sums) == 3 and sums[0][2] == "0" and sums[2][2] == "0" and sums[1][2] != "0" \
    and "failed" in sums[1][1] and "failed" not in sums[0][1] and "failed" not in sums[2][1]
nonstable_note = ""
if not ok and len(sums) == 3:
    # tests that the pinned baseline itself lists as flaky / always failing (they are not among
    # the 795 stable tests) do not count: a and c must be green on everything else, b must fail
    # on something else (the demonstration)
    base = json.load(open("/root/.vp/BASELINE.json"))
    nonstable = {t.replace("::blackbox::", "::blackbox ").split(" ", 1)[-1] if False else t
                 for t in base.get("flaky", []) + base.get("always_fail", [])}

    def final_failures(text):
        out = set()
        for l in text.splitlines():
            m = re.search(r"FAIL \[.*?\] \(\s*\d+/\d+\) (\S+) (\S+)", l)
            if m:
                out.add(f"{m.group(1)}::{m.group(2)}".replace("::blackbox::", "::blackbox::"))
        return out
    fa, fb, fc = (final_failures(x[1]) for x in sums)
    norm = lambda t: t.replace("astria-composer::blackbox::", "astria-composer::blackbox::")
    ns = {norm(t) for t in nonstable}
    fa, fb, fc = ({norm(t) for t in f} for f in (fa, fb, fc))
    if not (fa - ns) and not (fc - ns) and (fb - ns):
        ok = True
        nonstable_note = ("a/c phases: the only failing tests are ones the pinned baseline lists as "
                          f"flaky/always failing ({sorted(fa | fc)}); b phase additionally fails "
                          f"{sorted(fb - ns)}")
if not ok:
    sys.exit(f"{sid}: verify.log does not show a/b/c = pass/fail/pass: {verdict}")
m = json.load(open(os.path.join(src, "meta.json")))
head = subprocess.check_output(["git", "-C", "/repo", "rev-parse", "--short", "HEAD"], text=True).strip()
m["confirmed_here"] = {
    "how": "tools/verify_seed.sh in a scratch git worktree of /repo HEAD (removed afterwards), "
           "cargo nextest run --offline -p <touched crates> --no-fail-fast",
    "repo_head": head,
    "a_change_only": next(l.strip() for l in sums[0][1].splitlines() if "Summary" in l),
    "b_change_plus_demo": next(l.strip() for l in sums[1][1].splitlines() if "Summary" in l),
    "c_demo_only": next(l.strip() for l in sums[2][1].splitlines() if "Summary" in l),
}
if nonstable_note:
    m["confirmed_here"]["non_stable_tests"] = nonstable_note
m["caught_by"] = caught
m["first_run"] = (first == "yes")
if note:
    m["note"] = note
if os.path.exists(dst):
    shutil.rmtree(dst)
shutil.move(src, dst)
json.dump(m, open(os.path.join(dst, "meta.json"), "w"), indent=1)
print(sid, "promoted:", m["confirmed_here"]["b_change_plus_demo"])

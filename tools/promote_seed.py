#!/usr/bin/env python3
"""tools/promote_seed.py <id> <caught_by> <first_run: yes|no> [note]
Move a seed from seeded/_incoming/<id> to seeded/<id> after tools/verify_seed.sh confirmed it, and
record in meta.json what was run here and which rule reports it."""
import json, os, re, shutil, subprocess, sys
sid, caught, first = sys.argv[1], sys.argv[2], sys.argv[3]
note = sys.argv[4] if len(sys.argv) > 4 else ""
src, dst = f"/verif/seeded/_incoming/{sid}", f"/verif/seeded/{sid}"
log = open(os.path.join(src, "verify.log")).read()
verdict = [l for l in log.splitlines() if l.startswith(sid + ":")][-1]
sums = re.findall(r"=== (\w): .*?\n((?:.*\n)*?)rc=(\d+)", log)
ok = len(sums) == 3 and sums[0][2] == "0" and sums[2][2] == "0" and sums[1][2] != "0" \
    and "failed" in sums[1][1] and "failed" not in sums[0][1] and "failed" not in sums[2][1]
if not ok:
    sys.exit(f"{sid}: verify.log does not show a/b/c = pass/fail/pass: {verdict}")
m = json.load(open(os.path.join(src, "meta.json")))
head = subprocess.check_output(["git", "-C", "/repo", "rev-parse", "--short", "HEAD"], text=True).strip()
m["confirmed_here"] = {
    "how": "tools/verify_seed.sh in a scratch git worktree of /repo HEAD (removed afterwards), "
           "cargo nextest run --offline -p <touched crates> --no-fail-fast",
    "repo_head": head,
    "a_change_only": next(l.strip() for l in sums[0][1].splitlines() if "Summary" in l),
    "b_change_plus_demo": next(l.strip() for l in sums[1][1].splitlines() if "Summary" in l),
    "c_demo_only": next(l.strip() for l in sums[2][1].splitlines() if "Summary" in l),
}
m["caught_by"] = caught
m["first_run"] = (first == "yes")
if note:
    m["note"] = note
if os.path.exists(dst):
    shutil.rmtree(dst)
shutil.move(src, dst)
json.dump(m, open(os.path.join(dst, "meta.json"), "w"), indent=1)
print(sid, "promoted:", m["confirmed_here"]["b_change_plus_demo"])

//! astria-facts: a rustc_private driver that dumps `mir_built` bodies (the MIR before
//! borrow-check and before the coroutine transform), ADT definitions and impl tables of the
//! astria workspace crates as JSON lines, for the python rule engine in /verif/rules.
//!
//! It is used as `RUSTC_WRAPPER`: argv = [self, <real rustc>, <rustc args>...].
//!  * workspace crates listed in ASTRIA_FACTS_CRATES: compiled in-process with the fact
//!    callbacks installed (the compilation itself continues normally);
//!  * `ethnum` (does not build on the nightly that carries rustc-dev): its `lib.rs` path is
//!    swapped for the one-line-patched copy under ASTRIA_FACTS_SHIM;
//!  * everything else: exec the real rustc unchanged.
#![feature(rustc_private)]

extern crate rustc_abi;
extern crate rustc_driver;
extern crate rustc_hir;
extern crate rustc_interface;
extern crate rustc_middle;
extern crate rustc_session;
extern crate rustc_span;

use std::fmt::Write as _;
use std::os::unix::process::CommandExt;
use std::sync::Mutex;

use rustc_driver::{Callbacks, Compilation};
use rustc_hir::def::DefKind;
use rustc_hir::def_id::{DefId, LocalDefId, LOCAL_CRATE};
use rustc_interface::interface;
use rustc_middle::mir::{
    AggregateKind, AssertKind, BasicBlock, Body, BorrowKind, Const, Operand, Place, PlaceElem,
    Rvalue, StatementKind, TerminatorKind, VarDebugInfoContents,
};
use rustc_middle::mir::PlaceTy;
use rustc_middle::ty::print::{
    with_no_trimmed_paths, with_no_visible_paths, with_resolve_crate_name,
};
use rustc_middle::ty::{self, Instance, TyCtxt, TypingEnv};
use rustc_middle::util::Providers;
use rustc_session::Session;
use rustc_span::Span;

struct Stash(Vec<(LocalDefId, Body<'static>)>);
unsafe impl Send for Stash {}
static STASH: Mutex<Stash> = Mutex::new(Stash(Vec::new()));
static ORIG_MIR_BUILT: Mutex<
    Option<
        for<'tcx> fn(
            TyCtxt<'tcx>,
            LocalDefId,
        ) -> &'tcx rustc_data_structures_steal::Steal<Body<'tcx>>,
    >,
> = Mutex::new(None);

mod rustc_data_structures_steal {
    extern crate rustc_data_structures;
    pub use rustc_data_structures::steal::Steal;
}

fn my_mir_built<'tcx>(
    tcx: TyCtxt<'tcx>,
    def: LocalDefId,
) -> &'tcx rustc_data_structures_steal::Steal<Body<'tcx>> {
    let orig = ORIG_MIR_BUILT.lock().unwrap().expect("original provider");
    let steal = orig(tcx, def);
    let body: Body<'tcx> = steal.borrow().clone();
    // SAFETY: the arena the body points into outlives `after_analysis`, where the stash is
    // consumed with the same `tcx`; the lifetime is only erased to park it in a static.
    let body: Body<'static> = unsafe { std::mem::transmute(body) };
    STASH.lock().unwrap().0.push((def, body));
    steal
}

fn override_queries(_sess: &Session, providers: &mut Providers) {
    *ORIG_MIR_BUILT.lock().unwrap() = Some(providers.queries.mir_built);
    providers.queries.mir_built = my_mir_built;
}

struct Facts {
    out_dir: String,
}

impl Callbacks for Facts {
    fn config(&mut self, config: &mut interface::Config) {
        config.override_queries = Some(override_queries);
    }

    fn after_analysis<'tcx>(
        &mut self,
        _compiler: &interface::Compiler,
        tcx: TyCtxt<'tcx>,
    ) -> Compilation {
        if tcx.dcx().has_errors().is_some() {
            return Compilation::Continue;
        }
        let stash = std::mem::take(&mut STASH.lock().unwrap().0);
        let mut out = String::with_capacity(1 << 24);
        let krate = tcx.crate_name(LOCAL_CRATE).to_string();
        let is_bin = tcx
            .crate_types()
            .iter()
            .any(|t| matches!(t, rustc_session::config::CrateType::Executable));
        let _ = writeln!(
            out,
            "{{\"t\":\"hdr\",\"crate\":{},\"bin\":{},\"bodies\":{}}}",
            js(&krate),
            is_bin,
            stash.len()
        );
        with_resolve_crate_name!(with_no_trimmed_paths!(with_no_visible_paths!({
            dump_items(tcx, &mut out);
            for (def, body) in &stash {
                let body: &Body<'tcx> = unsafe { std::mem::transmute(body) };
                dump_body(tcx, *def, body, &mut out);
            }
        })));
        let name = format!(
            "{}/{}.{}.jsonl",
            self.out_dir,
            krate,
            if is_bin { "bin" } else { "lib" }
        );
        let tmp = format!("{name}.tmp{}", std::process::id());
        std::fs::write(&tmp, out).expect("write facts");
        std::fs::rename(&tmp, &name).expect("rename facts");
        Compilation::Continue
    }
}

// ------------------------------------------------------------------------------------------
// JSON helpers

fn js(s: &str) -> String {
    let mut o = String::with_capacity(s.len() + 2);
    o.push('"');
    for c in s.chars() {
        match c {
            '"' => o.push_str("\\\""),
            '\\' => o.push_str("\\\\"),
            '\n' => o.push_str("\\n"),
            '\r' => o.push_str("\\r"),
            '\t' => o.push_str("\\t"),
            c if (c as u32) < 0x20 => {
                let _ = write!(o, "\\u{:04x}", c as u32);
            }
            c => o.push(c),
        }
    }
    o.push('"');
    o
}

fn trunc(mut s: String, n: usize) -> String {
    if s.len() > n {
        let mut cut = n;
        while !s.is_char_boundary(cut) {
            cut -= 1;
        }
        s.truncate(cut);
        s.push('…');
    }
    s
}

fn def_name(tcx: TyCtxt<'_>, def_id: DefId) -> String {
    tcx.def_path_str(def_id)
}

fn def_key(tcx: TyCtxt<'_>, def_id: DefId) -> String {
    format!(
        "{}{}",
        tcx.crate_name(def_id.krate),
        tcx.def_path(def_id).to_string_no_crate_verbose()
    )
}

fn loc(tcx: TyCtxt<'_>, span: Span) -> (String, usize) {
    let sm = tcx.sess.source_map();
    let sp = span.source_callsite();
    let l = sm.lookup_char_pos(sp.lo());
    let f = match l.file.name.clone().into_local_path() {
        Some(p) => p.display().to_string(),
        None => format!("{}", l.file.name.prefer_local_unconditionally()),
    };
    (f, l.line)
}

fn macros(span: Span) -> String {
    let mut v = Vec::new();
    for e in span.macro_backtrace() {
        if let rustc_span::hygiene::ExpnKind::Macro(_, name) = e.kind {
            v.push(js(name.as_str()));
        } else if let rustc_span::hygiene::ExpnKind::Desugaring(d) = e.kind {
            v.push(js(&format!("desugar:{d:?}")));
        }
        if v.len() >= 6 {
            break;
        }
    }
    format!("[{}]", v.join(","))
}

// ------------------------------------------------------------------------------------------
// items: ADTs and impls

fn dump_items(tcx: TyCtxt<'_>, out: &mut String) {
    for ldid in tcx.hir_crate_items(()).definitions() {
        let did = ldid.to_def_id();
        match tcx.def_kind(did) {
            DefKind::Struct | DefKind::Enum | DefKind::Union => {
                let adt = tcx.adt_def(did);
                let mut vs = Vec::new();
                for v in adt.variants() {
                    let fs: Vec<String> = v
                        .fields
                        .iter()
                        .map(|f| {
                            let t = tcx.type_of(f.did).instantiate_identity().skip_norm_wip();
                            format!(
                                "[{},{},{}]",
                                js(f.name.as_str()),
                                js(&trunc(t.to_string(), 300)),
                                tcx.visibility(f.did).is_public()
                            )
                        })
                        .collect();
                    vs.push(format!("[{},[{}]]", js(v.name.as_str()), fs.join(",")));
                }
                let (f, l) = loc(tcx, tcx.def_span(did));
                let _ = writeln!(
                    out,
                    "{{\"t\":\"adt\",\"name\":{},\"kind\":{},\"variants\":[{}],\"file\":{},\"line\":{}}}",
                    js(&def_name(tcx, did)),
                    js(if adt.is_enum() { "enum" } else if adt.is_union() { "union" } else { "struct" }),
                    vs.join(","),
                    js(&f),
                    l
                );
            }
            DefKind::Impl { of_trait } => {
                let self_ty = tcx.type_of(did).instantiate_identity().skip_norm_wip();
                let tr = if of_trait {
                    let tr = tcx.impl_trait_ref(did).instantiate_identity().skip_norm_wip();
                    Some(def_name(tcx, tr.def_id))
                } else {
                    None
                };
                let mut items = Vec::new();
                for &aid in tcx.associated_item_def_ids(did) {
                    let ai = tcx.associated_item(aid);
                    if !matches!(ai.kind, ty::AssocKind::Fn { .. }) {
                        continue;
                    }
                    let tid = ai.trait_item_def_id();
                    items.push(format!(
                        "[{},{},{}]",
                        js(&def_name(tcx, aid)),
                        js(&def_key(tcx, aid)),
                        match tid {
                            Some(t) => js(&def_name(tcx, t)),
                            None => "null".to_string(),
                        }
                    ));
                }
                let _ = writeln!(
                    out,
                    "{{\"t\":\"impl\",\"self\":{},\"trait\":{},\"items\":[{}]}}",
                    js(&trunc(self_ty.to_string(), 300)),
                    match tr {
                        Some(t) => js(&t),
                        None => "null".to_string(),
                    },
                    items.join(",")
                );
            }
            _ => {}
        }
    }
}

// ------------------------------------------------------------------------------------------
// bodies

struct Cx<'a, 'tcx> {
    tcx: TyCtxt<'tcx>,
    body: &'a Body<'tcx>,
    env: TypingEnv<'tcx>,
}

impl<'a, 'tcx> Cx<'a, 'tcx> {
    fn place(&self, p: &Place<'tcx>) -> String {
        let mut s = format!("{}", p.local.as_usize());
        let mut pty = PlaceTy::from_ty(self.body.local_decls[p.local].ty);
        for elem in p.projection.iter() {
            s.push('|');
            match elem {
                PlaceElem::Deref => s.push('*'),
                PlaceElem::Field(idx, _) => {
                    let mut named = false;
                    if let ty::Adt(adt, _) = pty.ty.kind() {
                        let v = match pty.variant_index {
                            Some(v) => Some(adt.variant(v)),
                            None if !adt.is_enum() => Some(adt.non_enum_variant()),
                            None => None,
                        };
                        if let Some(v) = v {
                            if let Some(f) = v.fields.get(idx) {
                                let _ = write!(s, ".{}", f.name.as_str());
                                named = true;
                            }
                        }
                    }
                    if !named {
                        let _ = write!(s, ".{}", idx.as_usize());
                    }
                }
                PlaceElem::Downcast(name, vidx) => {
                    let n = match name {
                        Some(n) => n.to_string(),
                        None => match pty.ty.kind() {
                            ty::Adt(adt, _) if adt.is_enum() => {
                                adt.variant(vidx).name.to_string()
                            }
                            _ => format!("{}", vidx.as_usize()),
                        },
                    };
                    let _ = write!(s, "@{n}");
                }
                PlaceElem::Index(l) => {
                    let _ = write!(s, "[_{}]", l.as_usize());
                }
                PlaceElem::ConstantIndex { offset, from_end, .. } => {
                    let _ = write!(s, "[{}{}]", if from_end { "-" } else { "" }, offset);
                }
                PlaceElem::Subslice { .. } => s.push_str("[..]"),
                _ => s.push('~'),
            }
            pty = pty.projection_ty(self.tcx, elem);
        }
        js(&s)
    }

    fn operand(&self, o: &Operand<'tcx>) -> String {
        match o {
            Operand::Copy(p) => format!("[\"c\",{}]", self.place(p)),
            Operand::Move(p) => format!("[\"m\",{}]", self.place(p)),
            Operand::Constant(c) => {
                let ty = c.const_.ty();
                if let ty::FnDef(did, args) = *ty.kind() {
                    return format!(
                        "[\"f\",{},{}]",
                        js(&def_name(self.tcx, did)),
                        js(&trunc(format!("{args:?}"), 300))
                    );
                }
                let val = match c.const_ {
                    Const::Val(..) | Const::Ty(..) | Const::Unevaluated(..) => {
                        match c.const_.try_eval_scalar_int(self.tcx, self.env) {
                            Some(si) => format!("{}", si.to_bits_unchecked()),
                            None => trunc(format!("{}", c.const_), 200),
                        }
                    }
                };
                format!("[\"k\",{},{}]", js(&val), js(&trunc(ty.to_string(), 200)))
            }
            _ => "[\"k\",\"<runtime-checks>\",\"bool\"]".to_string(),
        }
    }

    fn fn_operand(&self, func: &Operand<'tcx>) -> String {
        if let Operand::Constant(c) = func {
            if let ty::FnDef(did, args) = *c.const_.ty().kind() {
                let mut resolved = "null".to_string();
                let mut rkey = "null".to_string();
                if let Ok(Some(inst)) = Instance::try_resolve(self.tcx, self.env, did, args) {
                    let rd = inst.def_id();
                    if rd != did {
                        resolved = js(&def_name(self.tcx, rd));
                        rkey = js(&def_key(self.tcx, rd));
                    }
                }
                let self_ty = if self.tcx.trait_of_assoc(did).is_some() && !args.is_empty() {
                    js(&trunc(format!("{}", args.type_at(0)), 300))
                } else {
                    "null".to_string()
                };
                return format!(
                    "{{\"n\":{},\"k\":{},\"g\":{},\"s\":{},\"r\":{},\"rk\":{}}}",
                    js(&def_name(self.tcx, did)),
                    js(&def_key(self.tcx, did)),
                    js(&trunc(format!("{args:?}"), 400)),
                    self_ty,
                    resolved,
                    rkey
                );
            }
        }
        format!("{{\"op\":{}}}", self.operand(func))
    }

    fn rvalue(&self, r: &Rvalue<'tcx>) -> String {
        match r {
            Rvalue::Use(o, ..) => format!("[\"use\",{}]", self.operand(o)),
            Rvalue::Repeat(o, _) => format!("[\"rep\",{}]", self.operand(o)),
            Rvalue::Ref(_, bk, p) => {
                let k = match bk {
                    BorrowKind::Shared => "shr",
                    BorrowKind::Fake(_) => "fake",
                    BorrowKind::Mut { .. } => "mut",
                };
                format!("[\"ref\",\"{k}\",{}]", self.place(p))
            }
            Rvalue::RawPtr(_, p) => format!("[\"ptr\",{}]", self.place(p)),
            Rvalue::Cast(k, o, t) => format!(
                "[\"cast\",{},{},{}]",
                js(&trunc(format!("{k:?}"), 60)),
                self.operand(o),
                js(&trunc(t.to_string(), 200))
            ),
            Rvalue::BinaryOp(op, ab) => format!(
                "[\"bin\",\"{op:?}\",{},{}]",
                self.operand(&ab.0),
                self.operand(&ab.1)
            ),
            Rvalue::UnaryOp(op, a) => {
                format!("[\"un\",{},{}]", js(&format!("{op:?}")), self.operand(a))
            }
            Rvalue::Discriminant(p) => format!("[\"disc\",{}]", self.place(p)),
            Rvalue::CopyForDeref(p) => format!("[\"use\",[\"c\",{}]]", self.place(p)),
            Rvalue::Aggregate(kind, ops) => {
                let opss: Vec<String> = ops.iter().map(|o| self.operand(o)).collect();
                let (k, name, variant, fields) = match &**kind {
                    AggregateKind::Array(_) => ("array", String::new(), String::new(), vec![]),
                    AggregateKind::Tuple => ("tuple", String::new(), String::new(), vec![]),
                    AggregateKind::Adt(did, vidx, _, _, active) => {
                        let adt = self.tcx.adt_def(*did);
                        let v = adt.variant(*vidx);
                        let fields: Vec<String> = match active {
                            Some(f) => vec![js(v.fields[*f].name.as_str())],
                            None => v.fields.iter().map(|f| js(f.name.as_str())).collect(),
                        };
                        ("adt", def_name(self.tcx, *did), v.name.to_string(), fields)
                    }
                    AggregateKind::Closure(did, _) => {
                        ("closure", def_name(self.tcx, *did), def_key(self.tcx, *did), vec![])
                    }
                    AggregateKind::Coroutine(did, _) => {
                        ("coroutine", def_name(self.tcx, *did), def_key(self.tcx, *did), vec![])
                    }
                    AggregateKind::CoroutineClosure(did, _) => {
                        ("cclosure", def_name(self.tcx, *did), def_key(self.tcx, *did), vec![])
                    }
                    AggregateKind::RawPtr(..) => ("rawptr", String::new(), String::new(), vec![]),
                };
                format!(
                    "[\"agg\",\"{k}\",{},{},[{}],[{}]]",
                    js(&name),
                    js(&variant),
                    opss.join(","),
                    fields.join(",")
                )
            }
            other => format!("[\"other\",{}]", js(&trunc(format!("{other:?}"), 120))),
        }
    }
}

fn bb(b: BasicBlock) -> usize {
    b.as_usize()
}

fn dump_body<'tcx>(tcx: TyCtxt<'tcx>, def: LocalDefId, body: &Body<'tcx>, out: &mut String) {
    let did = def.to_def_id();
    let kind = tcx.def_kind(did);
    let env = TypingEnv::post_analysis(tcx, did);
    let cx = Cx { tcx, body, env };
    let root = tcx.typeck_root_def_id(did);
    let (file, line) = loc(tcx, body.span);
    let vis = match kind {
        DefKind::Fn | DefKind::AssocFn => {
            if tcx.visibility(did).is_public() {
                "pub"
            } else {
                "restricted"
            }
        }
        _ => "na",
    };
    let parent = if root != did { js(&def_key(tcx, tcx.parent(did))) } else { "null".into() };
    let _ = write!(
        out,
        "{{\"t\":\"body\",\"name\":{},\"key\":{},\"owner\":{},\"okey\":{},\"parent\":{},\"kind\":{},\"file\":{},\"line\":{},\"vis\":\"{}\",\"expn\":{},\"argc\":{},",
        js(&def_name(tcx, did)),
        js(&def_key(tcx, did)),
        js(&def_name(tcx, root)),
        js(&def_key(tcx, root)),
        parent,
        js(&format!("{kind:?}")),
        js(&file),
        line,
        vis,
        body.span.from_expansion(),
        body.arg_count
    );
    // locals
    out.push_str("\"locals\":[");
    for (i, d) in body.local_decls.iter().enumerate() {
        if i > 0 {
            out.push(',');
        }
        out.push_str(&js(&trunc(d.ty.to_string(), 400)));
    }
    out.push_str("],\"dbg\":[");
    let mut first = true;
    for v in &body.var_debug_info {
        if let VarDebugInfoContents::Place(p) = &v.value {
            if !first {
                out.push(',');
            }
            first = false;
            let _ = write!(out, "[{},{}]", js(v.name.as_str()), cx.place(p));
        }
    }
    out.push_str("],\"blocks\":[");
    for (i, data) in body.basic_blocks.iter().enumerate() {
        if i > 0 {
            out.push(',');
        }
        out.push_str("{\"s\":[");
        let mut first = true;
        for st in &data.statements {
            let s = match &st.kind {
                StatementKind::Assign(b) => {
                    let (p, r) = &**b;
                    let (_, l) = loc(tcx, st.source_info.span);
                    Some(format!("[\"a\",{},{},{}]", cx.place(p), cx.rvalue(r), l))
                }
                StatementKind::SetDiscriminant { place, variant_index } => Some(format!(
                    "[\"sd\",{},{}]",
                    cx.place(place),
                    variant_index.as_usize()
                )),
                _ => None,
            };
            if let Some(s) = s {
                if !first {
                    out.push(',');
                }
                first = false;
                out.push_str(&s);
            }
        }
        out.push_str("],\"c\":");
        let _ = write!(out, "{}", data.is_cleanup);
        out.push_str(",\"t\":");
        let term = data.terminator();
        let span = term.source_info.span;
        let (_, tl) = loc(tcx, span);
        let t = match &term.kind {
            TerminatorKind::Goto { target } => format!("[\"goto\",{}]", bb(*target)),
            TerminatorKind::SwitchInt { discr, targets } => {
                let arms: Vec<String> =
                    targets.iter().map(|(v, t)| format!("[{},{}]", v, bb(t))).collect();
                format!(
                    "[\"switch\",{},[{}],{},{}]",
                    cx.operand(discr),
                    arms.join(","),
                    bb(targets.otherwise()),
                    tl
                )
            }
            TerminatorKind::UnwindResume => "[\"resume\"]".into(),
            TerminatorKind::UnwindTerminate(_) => "[\"abort\"]".into(),
            TerminatorKind::Return => format!("[\"ret\",{}]", tl),
            TerminatorKind::Unreachable => "[\"unreachable\"]".into(),
            TerminatorKind::Drop { place, target, .. } => {
                format!("[\"drop\",{},{}]", cx.place(place), bb(*target))
            }
            TerminatorKind::Call { func, args, destination, target, fn_span, .. } => {
                let a: Vec<String> = args.iter().map(|a| cx.operand(&a.node)).collect();
                let (_, fl) = loc(tcx, *fn_span);
                format!(
                    "[\"call\",{},[{}],{},{},{},{},{}]",
                    cx.fn_operand(func),
                    a.join(","),
                    cx.place(destination),
                    match target {
                        Some(t) => format!("{}", bb(*t)),
                        None => "null".into(),
                    },
                    fl.max(1),
                    macros(span),
                    span.from_expansion()
                )
            }
            TerminatorKind::TailCall { func, args, .. } => {
                let a: Vec<String> = args.iter().map(|a| cx.operand(&a.node)).collect();
                format!("[\"tailcall\",{},[{}],{}]", cx.fn_operand(func), a.join(","), tl)
            }
            TerminatorKind::Assert { cond, expected, msg, target, .. } => {
                let k = match &**msg {
                    AssertKind::BoundsCheck { .. } => "BoundsCheck".to_string(),
                    AssertKind::Overflow(op, ..) => format!("Overflow:{op:?}"),
                    AssertKind::OverflowNeg(_) => "OverflowNeg".to_string(),
                    AssertKind::DivisionByZero(_) => "DivisionByZero".to_string(),
                    AssertKind::RemainderByZero(_) => "RemainderByZero".to_string(),
                    other => trunc(format!("{other:?}"), 40),
                };
                format!(
                    "[\"assert\",{},{},{},{},{},{}]",
                    cx.operand(cond),
                    expected,
                    js(&k),
                    bb(*target),
                    tl,
                    macros(span)
                )
            }
            TerminatorKind::Yield { value, resume, resume_arg, .. } => format!(
                "[\"yield\",{},{},{}]",
                cx.operand(value),
                bb(*resume),
                cx.place(resume_arg)
            ),
            TerminatorKind::CoroutineDrop => "[\"cdrop\"]".into(),
            TerminatorKind::FalseEdge { real_target, imaginary_target } => {
                format!("[\"fe\",{},{}]", bb(*real_target), bb(*imaginary_target))
            }
            TerminatorKind::FalseUnwind { real_target, .. } => {
                format!("[\"fu\",{}]", bb(*real_target))
            }
            TerminatorKind::InlineAsm { .. } => "[\"asm\"]".into(),
        };
        out.push_str(&t);
        out.push('}');
    }
    out.push_str("]}\n");
}

// ------------------------------------------------------------------------------------------

fn arg_value<'a>(args: &'a [String], flag: &str) -> Option<&'a str> {
    let mut it = args.iter();
    while let Some(a) = it.next() {
        if a == flag {
            return it.next().map(|s| s.as_str());
        }
        if let Some(rest) = a.strip_prefix(flag) {
            if let Some(v) = rest.strip_prefix('=') {
                return Some(v);
            }
        }
    }
    None
}

fn main() {
    let argv: Vec<String> = std::env::args().collect();
    if argv.len() < 2 {
        eprintln!("astria-facts: use as RUSTC_WRAPPER");
        std::process::exit(2);
    }
    let rustc = argv[1].clone();
    let mut rest: Vec<String> = argv[2..].to_vec();
    let crate_name = arg_value(&rest, "--crate-name").unwrap_or("").to_string();
    let wanted = std::env::var("ASTRIA_FACTS_CRATES").unwrap_or_default();
    let primary = std::env::var("CARGO_PRIMARY_PACKAGE").is_ok();
    let is_test = rest.iter().any(|a| a == "--test");
    let analyse = primary
        && !is_test
        && !crate_name.is_empty()
        && crate_name != "build_script_build"
        && wanted.split(',').any(|w| w == crate_name);
    if analyse {
        let out_dir = std::env::var("ASTRIA_FACTS_DIR").expect("ASTRIA_FACTS_DIR");
        let mut args = vec![rustc];
        args.extend(rest);
        let mut cb = Facts { out_dir };
        rustc_driver::run_compiler(&args, &mut cb);
        return;
    }
    if crate_name == "ethnum" {
        if let Ok(shim) = std::env::var("ASTRIA_FACTS_SHIM") {
            for a in rest.iter_mut() {
                if a.ends_with("ethnum-1.5.1/src/lib.rs") {
                    *a = format!("{shim}/ethnum-1.5.1/src/lib.rs");
                }
            }
        }
    }
    let err = std::process::Command::new(&rustc).args(&rest).exec();
    eprintln!("astria-facts: exec {rustc}: {err}");
    std::process::exit(127);
}

# Environment shared by every cargo invocation that goes through the fact driver.
# Sourced by ./check and setup; keep flags constant or the 9-minute dependency cache is lost.
export VERIF=/verif
export CARGO_NET_OFFLINE=true
export ASTRIA_FACTS_SHIM=$VERIF/shim
export ASTRIA_FACTS_CRATES=astria_core,astria_core_crypto,astria_core_address,astria_merkle,astria_sequencer,astria_conductor,astria_sequencer_relayer,astria_composer
export RUSTC_WRAPPER=$VERIF/driver/target/release/astria-facts
export RUSTFLAGS="--cfg tokio_unstable -Zmir-opt-level=0 -Awarnings"
export CARGO_TARGET_DIR=$VERIF/.cache/target
export LD_LIBRARY_PATH=$(rustc +nightly --print sysroot)/lib
export CARGO_INCREMENTAL=0

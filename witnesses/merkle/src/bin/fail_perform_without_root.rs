// expect: E0599   property: C08 (M3)
// An audit cannot be performed before both the leaf and the expected root were supplied
// (typestate: `perform` exists only on Audit<WithLeafHash, WithRoot>).
fn main() {
    let proof = astria_merkle::audit::Proof::unchecked()
        .audit_path(vec![])
        .leaf_index(0)
        .tree_size(1)
        .try_into_proof()
        .unwrap();
    let _ = proof.audit().with_leaf(b"x").perform();
}

// twin of fail_proof_literal / fail_perform_without_root: the legal API compiles
fn main() {
    let proof = astria_merkle::audit::Proof::unchecked()
        .audit_path(vec![])
        .leaf_index(0)
        .tree_size(1)
        .try_into_proof()
        .unwrap();
    let _ = proof.audit().with_leaf(b"x").with_root([0; 32]).perform();
}

// expect: E0451   property: C08 (M3), C17 (W2)
// A merkle Proof cannot be assembled from parts outside astria-merkle (private fields): the only
// ways to obtain one are Tree::construct_proof and UncheckedProof::try_into_proof.
fn main() {
    let _ = astria_merkle::audit::Proof {
        audit_path: vec![],
        leaf_index: 0,
        tree_size: std::num::NonZeroUsize::new(1).unwrap(),
    };
}

// expect: E0451   property: C02 (A5), C17 (W2)
// A Transaction (signature-checked) cannot be built from parts outside astria-core.
use astria_core::protocol::transaction::v1::{Transaction, TransactionBody};
fn take(other: Transaction, body: TransactionBody) -> Transaction {
    Transaction {
        body,
        ..other
    }
}
fn main() {
    let _ = take;
}

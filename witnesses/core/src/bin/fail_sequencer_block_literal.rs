// expect: E0451   property: C07 (R1), C17 (W2)
// A SequencerBlock cannot be rebuilt field-by-field outside astria-core (all fields private):
// the only producers are the validating `try_from_raw`/`try_from_block_info_and_data`.
use astria_core::sequencerblock::v1::SequencerBlock;
fn take(other: SequencerBlock) -> SequencerBlock {
    SequencerBlock {
        ..other
    }
}
fn main() {
    let _ = take;
}

// twin of fail_transaction_literal: decoding (which verifies the signature) compiles
use astria_core::{protocol::transaction::v1::Transaction, Protobuf as _};
fn take(raw: <Transaction as astria_core::Protobuf>::Raw) -> Option<Transaction> {
    Transaction::try_from_raw(raw).ok()
}
fn main() {
    let _ = take;
}

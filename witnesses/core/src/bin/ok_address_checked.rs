// twin of fail_address_literal
use astria_core::primitive::v1::Address;
fn take() -> Option<Address> {
    Address::builder().array([0u8; 20]).prefix("astria").try_build().ok()
}
fn main() {
    let _ = take;
}

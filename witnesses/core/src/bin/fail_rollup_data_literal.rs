// expect: E0451   property: C09 (Q1c), C07 (R1)
// Celestia rollup data cannot be rebuilt field-by-field outside astria-core.
use astria_core::sequencerblock::v1::celestia::SubmittedRollupData;
fn take(other: SubmittedRollupData) -> SubmittedRollupData {
    SubmittedRollupData {
        ..other
    }
}
fn main() {
    let _ = take;
}

// expect: E0451   property: C07 (R1), C17 (W2)
// Checked Celestia metadata cannot be built from parts outside astria-core.
use astria_core::sequencerblock::v1::celestia::{SubmittedMetadata, UncheckedSubmittedMetadata};
fn take(u: UncheckedSubmittedMetadata) -> SubmittedMetadata {
    SubmittedMetadata {
        block_hash: u.block_hash,
        header: u.header,
        rollup_ids: u.rollup_ids,
        rollup_transactions_proof: u.rollup_transactions_proof,
        rollup_ids_proof: u.rollup_ids_proof,
        upgrade_change_hashes: u.upgrade_change_hashes,
        extended_commit_info_with_proof: u.extended_commit_info_with_proof,
    }
}
fn main() {
    let _ = take;
}

// twin of fail_rollup_data_literal
use astria_core::sequencerblock::v1::celestia::SubmittedRollupData;
fn take(raw: astria_core::generated::astria::sequencerblock::v1::SubmittedRollupData) -> Option<SubmittedRollupData> {
    SubmittedRollupData::try_from_raw(raw).ok()
}
fn main() {
    let _ = take;
}

// twin of fail_metadata_literal: the validating constructor compiles
use astria_core::sequencerblock::v1::celestia::{SubmittedMetadata, UncheckedSubmittedMetadata};
fn take(u: UncheckedSubmittedMetadata) -> Option<SubmittedMetadata> {
    SubmittedMetadata::try_from_unchecked(u).ok()
}
fn main() {
    let _ = take;
}

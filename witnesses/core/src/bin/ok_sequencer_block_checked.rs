// twin of fail_sequencer_block_literal
use astria_core::sequencerblock::v1::SequencerBlock;
fn take(raw: astria_core::generated::astria::sequencerblock::v1::SequencerBlock) -> Option<SequencerBlock> {
    SequencerBlock::try_from_raw(raw).ok()
}
fn main() {
    let _ = take;
}

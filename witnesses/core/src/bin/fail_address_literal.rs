// expect: E0451   property: C17 (W2)
// An Address (checked prefix + 20 bytes) cannot be rebuilt field-by-field outside its crate.
use astria_core::primitive::v1::Address;
fn take(other: Address) -> Address {
    Address {
        ..other
    }
}
fn main() {
    let _ = take;
}
